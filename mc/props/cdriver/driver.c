/* Hook-script interpreter: drives the exported function table exactly as a C hook does,
 * through the field names declared in the shipped c_hook.h. Every out-buffer lives in an
 * arena between canaries. The transcript format is mirrored by the native interpreter in c15.rs. */
#include "c_hook.h"
#include <string.h>

#define CANARY 64
#define CANARY_BYTE 0xA5

typedef struct Out {
    uint8_t *buf;
    size_t   cap;
    size_t   len;
    int      overflow;
} Out;

static void put(Out *o, const void *p, size_t n)
{
    if (o->len + n > o->cap) {
        o->overflow = 1;
        return;
    }
    memcpy(o->buf + o->len, p, n);
    o->len += n;
}
static void put8(Out *o, uint8_t v) { put(o, &v, 1); }
static void put16(Out *o, uint16_t v) { uint8_t b[2] = { (uint8_t) v, (uint8_t)(v >> 8) }; put(o, b, 2); }
static void put32(Out *o, uint32_t v) { uint8_t b[4] = { (uint8_t) v, (uint8_t)(v >> 8), (uint8_t)(v >> 16), (uint8_t)(v >> 24) }; put(o, b, 4); }

/* arena: [canary][buffer of cap bytes][canary] */
static uint8_t arena[CANARY + 70000 + CANARY + 4096];
static uint8_t *arena_get(size_t cap)
{
    (void) cap;
    memset(arena, CANARY_BYTE, sizeof arena);
    return arena + CANARY;
}
static int arena_ok(size_t cap)
{
    size_t i;
    for (i = 0; i < CANARY; i++) {
        if (arena[i] != CANARY_BYTE) return 0;
    }
    for (i = CANARY + cap; i < sizeof arena; i++) {
        if (arena[i] != CANARY_BYTE) return 0;
    }
    return 1;
}

typedef struct Ctx {
    const FnTable *t;
    Out           *o;
    const uint8_t *ops;
    size_t         ops_len;
    unsigned       target;
    unsigned       counter;
    int            stop_after;
    int            edns;
    int            bad; /* canary or format error */
} Ctx;

static void put_err(Ctx *c, const CErr *err)
{
    const char *d = err ? c->t->error_description(err) : NULL;
    size_t      n = d ? strnlen(d, 4096) : 0;
    put16(c->o, (uint16_t) n);
    if (n) put(c->o, d, n);
}

static void put_rc(Ctx *c, int rc, const CErr *err)
{
    put32(c->o, (uint32_t) rc);
    if (rc == -1) put_err(c, err);
}

static void run_cb_ops(Ctx *c, void *it)
{
    const uint8_t *p = c->ops, *end = c->ops + c->ops_len;
    while (p < end) {
        uint8_t op = *p++;
        put8(c->o, op);
        switch (op) {
        case 0x20: {
            char *name = (char *) arena_get(DNS_MAX_HOSTNAME_LEN + 1);
            c->t->name(it, name);
            if (!arena_ok(DNS_MAX_HOSTNAME_LEN + 1)) { c->bad = 101; return; }
            size_t n = strnlen(name, DNS_MAX_HOSTNAME_LEN + 1);
            if (n > DNS_MAX_HOSTNAME_LEN) { c->bad = 102; return; }
            put16(c->o, (uint16_t) n);
            put(c->o, name, n);
            break;
        }
        case 0x21: put16(c->o, c->t->rr_type(it)); break;
        case 0x22: put16(c->o, c->t->rr_class(it)); break;
        case 0x23: put32(c->o, c->t->rr_ttl(it)); break;
        case 0x24: {
            uint32_t v = (uint32_t) p[0] | ((uint32_t) p[1] << 8) | ((uint32_t) p[2] << 16) | ((uint32_t) p[3] << 24);
            p += 4;
            c->t->set_rr_ttl(it, v);
            break;
        }
        case 0x25: {
            size_t   cap = *p++;
            uint8_t *addr = arena_get(cap);
            size_t   len = cap;
            c->t->rr_ip(it, addr, &len);
            if (!arena_ok(len <= cap ? len : cap)) { c->bad = 103; return; }
            if (len != 4 && len != 16) { c->bad = 104; return; }
            put8(c->o, (uint8_t) len);
            put(c->o, addr, len);
            break;
        }
        case 0x26: {
            size_t len = *p++;
            c->t->set_rr_ip(it, p, len);
            p += len;
            break;
        }
        case 0x27: {
            size_t      len = *p++;
            const CErr *err = NULL;
            int         rc = c->t->set_raw_name(it, &err, p, len);
            p += len;
            put_rc(c, rc, err);
            break;
        }
        case 0x28: {
            size_t         len = *p++;
            const char    *name = (const char *) p;
            p += len;
            size_t         zlen = *p++;
            const uint8_t *zone = zlen ? p : NULL;
            p += zlen;
            const CErr *err = NULL;
            int         rc = c->t->set_name(it, &err, name, len, zone, zlen);
            put_rc(c, rc, err);
            break;
        }
        case 0x29: {
            const CErr *err = NULL;
            int         rc = c->t->delete_rr(it, &err);
            put_rc(c, rc, err);
            break;
        }
        default: c->bad = 110; return;
        }
    }
}

static bool cb(void *ctx_, void *it)
{
    Ctx *c = (Ctx *) ctx_;
    put8(c->o, 0xCB);
    put8(c->o, (uint8_t) c->counter);
    if (c->counter == c->target && !c->edns) {
        run_cb_ops(c, it);
        c->counter++;
        return c->stop_after ? true : false;
    }
    c->counter++;
    return false;
}

size_t driver_sizeof_fntable(void) { return sizeof(FnTable); }
size_t driver_offsetof_abi_version(void) { return offsetof(FnTable, abi_version); }
uint64_t driver_abi_version_constant(void) { return DNSSECTOR_ABI_VERSION; }
size_t driver_entry_count(void) { return offsetof(FnTable, abi_version) / sizeof(void (*)(void)); }

/* returns 0 on success, >= 100 on canary / format problems, 1 on transcript overflow */
int driver_run(const FnTable *t, ParsedPacket *pp, const uint8_t *script, size_t script_len, uint8_t *transcript,
               size_t transcript_cap, size_t *transcript_len)
{
    Out            o = { transcript, transcript_cap, 0, 0 };
    const uint8_t *p = script, *end = script + script_len;
    Ctx            c;
    memset(&c, 0, sizeof c);
    c.t = t;
    c.o = &o;
    if (t->abi_version != DNSSECTOR_ABI_VERSION) return 120;
    while (p < end) {
        uint8_t op = *p++;
        put8(&o, op);
        switch (op) {
        case 0x01: put32(&o, t->flags(pp)); break;
        case 0x02: {
            uint32_t v = (uint32_t) p[0] | ((uint32_t) p[1] << 8) | ((uint32_t) p[2] << 16) | ((uint32_t) p[3] << 24);
            p += 4;
            t->set_flags(pp, v);
            break;
        }
        case 0x03: put8(&o, t->rcode(pp)); break;
        case 0x04: t->set_rcode(pp, *p++); break;
        case 0x05: put8(&o, t->opcode(pp)); break;
        case 0x06: t->set_opcode(pp, *p++); break;
        case 0x07: {
            uint8_t sec = *p++;
            size_t  len = (size_t) p[0] | ((size_t) p[1] << 8);
            p += 2;
            char text[4200];
            if (len >= sizeof text) return 111;
            memcpy(text, p, len);
            text[len] = 0;
            p += len;
            const CErr *err = NULL;
            int         rc;
            switch (sec) {
            case 0: rc = t->add_to_question(pp, &err, text); break;
            case 1: rc = t->add_to_answer(pp, &err, text); break;
            case 2: rc = t->add_to_nameservers(pp, &err, text); break;
            default: rc = t->add_to_additional(pp, &err, text); break;
            }
            c.o = &o;
            put_rc(&c, rc, err);
            break;
        }
        case 0x08: {
            size_t cap = (size_t) p[0] | ((size_t) p[1] << 8);
            p += 2;
            uint8_t *buf = arena_get(cap);
            size_t   len = 0xdeadbeef;
            int      rc = t->raw_packet(pp, buf, &len, cap);
            put32(&o, (uint32_t) rc);
            if (rc == 0) {
                if (len > cap) return 105;
                if (!arena_ok(cap)) return 106;
                put32(&o, (uint32_t) len);
                put(&o, buf, len);
            } else {
                if (!arena_ok(0)) return 107; /* nothing may be written when it does not fit */
            }
            break;
        }
        case 0x09: {
            char    *name = (char *) arena_get(DNS_MAX_HOSTNAME_LEN + 1);
            uint16_t rr_type = 0xeeee;
            int      rc = t->question(pp, name, &rr_type);
            if (!arena_ok(DNS_MAX_HOSTNAME_LEN + 1)) return 108;
            size_t n = strnlen(name, DNS_MAX_HOSTNAME_LEN + 1);
            if (n > DNS_MAX_HOSTNAME_LEN) return 109;
            put32(&o, (uint32_t) rc);
            put16(&o, (uint16_t) n);
            put(&o, name, n);
            put16(&o, rr_type);
            break;
        }
        case 0x0a: {
            size_t      len = *p++;
            uint8_t    *raw = arena_get(DNS_MAX_HOSTNAME_LEN + 1);
            size_t      raw_len = 0;
            const CErr *err = NULL;
            int         rc = t->raw_name_from_str(raw, &raw_len, &err, (const char *) p, len);
            p += len;
            if (!arena_ok(DNS_MAX_HOSTNAME_LEN + 1)) return 112;
            put_rc(&c, rc, err);
            if (rc == 0) {
                if (raw_len > DNS_MAX_HOSTNAME_LEN + 1) return 113;
                put16(&o, (uint16_t) raw_len);
                put(&o, raw, raw_len);
            }
            break;
        }
        case 0x0b: {
            size_t         tlen = *p++;
            const uint8_t *tn = p;
            p += tlen;
            size_t         slen = *p++;
            const uint8_t *sn = p;
            p += slen;
            bool        suffix = *p++ != 0;
            const CErr *err = NULL;
#ifdef HEADER_RENAME_BY_VALUE
            /* the shipped header declares the names by value: call through the intended signature */
            int (*fn)(ParsedPacket *, const CErr **, const uint8_t *, size_t, const uint8_t *, size_t, bool) =
                (int (*)(ParsedPacket *, const CErr **, const uint8_t *, size_t, const uint8_t *, size_t, bool))(void (*)(void)) t->rename_with_raw_names;
            int rc = fn(pp, &err, tn, tlen, sn, slen, suffix);
#else
            int rc = t->rename_with_raw_names(pp, &err, tn, tlen, sn, slen, suffix);
#endif
            put_rc(&c, rc, err);
            break;
        }
        case 0x0c: {
            uint8_t sec = *p++;
            c.target = *p++;
            c.stop_after = *p++;
            c.ops_len = (size_t) p[0] | ((size_t) p[1] << 8);
            p += 2;
            c.ops = p;
            p += c.ops_len;
            c.counter = 0;
            c.edns = sec == 4;
            switch (sec) {
            case 1: t->iter_answer(pp, cb, &c); break;
            case 2: t->iter_nameservers(pp, cb, &c); break;
            case 3: t->iter_additional(pp, cb, &c); break;
            default: t->iter_edns(pp, cb, &c); break;
            }
            if (c.bad) return c.bad;
            put8(&o, 0xCE);
            put8(&o, (uint8_t) c.counter);
            break;
        }
        default: return 110;
        }
        if (c.bad) return c.bad;
    }
    *transcript_len = o.len;
    return o.overflow ? 1 : 0;
}
