/* Compiles only if a hook can pass name pointers to rename_with_raw_names as declared in c_hook.h. */
#include "c_hook.h"
int probe_rename(const FnTable *t, ParsedPacket *pp, const uint8_t *target, size_t target_len,
                 const uint8_t *source, size_t source_len)
{
    const CErr *err = NULL;
    return t->rename_with_raw_names(pp, &err, target, target_len, source, source_len, true);
}
