// Compiles the C hook-script driver against the header shipped with the library.
fn main() {
    let hdr_dir = "/repo/src/bin/c_hook";
    println!("cargo:rerun-if-changed={}/c_hook.h", hdr_dir);
    println!("cargo:rerun-if-changed=cdriver/driver.c");
    println!("cargo:rerun-if-changed=cdriver/probe_rename.c");
    println!("cargo:rustc-check-cfg=cfg(c_hook_header_rename_by_value)");
    // probe: can a hook pass pointers to rename_with_raw_names as the header declares it?
    let probe = cc::Build::new()
        .file("cdriver/probe_rename.c")
        .include(hdr_dir)
        .flag("-Wall")
        .flag("-Werror")
        .flag("-Werror=int-conversion")
        .cargo_metadata(false)
        .cargo_warnings(false)
        .try_compile("probe_rename");
    let mut b = cc::Build::new();
    b.file("cdriver/driver.c").include(hdr_dir).flag("-Wall").flag("-Werror").flag("-std=gnu11").cargo_warnings(false);
    if probe.is_err() {
        println!("cargo:rustc-cfg=c_hook_header_rename_by_value");
        b.define("HEADER_RENAME_BY_VALUE", None);
    }
    b.compile("cdriver");
}
