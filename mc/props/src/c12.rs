//! C12: header setters touch only their own bits; getters return what was set.

use crate::engine::*;
use crate::PropDef;
use dnssector::*;
use refmodel::gen::*;
use refmodel::msg::*;
use serde_json::{json, Value};

pub fn def() -> PropDef {
    PropDef {
        id: "C12",
        rule: "set_flags: all 65536 header words x all 65536 low argument halves (upper half 0) plus all words x {each single upper bit, 0xffff, 16 seed-chosen upper halves} x 64 low patterns; set_opcode/set_rcode: all words x all 256 arguments; set_response (method and associated function): all words x {true,false}; set_tid: all words x 8 ids; on three base packets (with OPT, without, and the 12-byte header-only packet of ParsedPacket::empty()); every ordered pair of 45 setter instances x 40 header words on a freshly parsed packet; one setter (63 instances, every single flag bit among them) x 10 header words on objects with 8 histories of settling calls (in-place decompression, question memo fill, insertion, recompute, rename); distinct classes = (setter, whether a bit outside the field was at stake, argument class)",
        run,
        replay,
        bounds: |_| json!({"header_words": 65536, "set_flags_low_halves": 65536, "upper_halves": 34, "opcode_rcode_args": 256, "tids": 12}),
        assumptions: &["VERIF_SEED only chooses the 16 sampled upper halves of set_flags' argument, which the property itself calls sampled"],
        budget_s: |t| t.pick(50, 300),
        exhaustive: true,
        nshards: 16,
        post: |_, _| vec![],
    }
}

fn bases() -> Vec<Vec<u8>> {
    let ba = nm("b.a");
    let mut m = base_msg(&ba, refmodel::wire::T_A, true);
    m.an.push(a_rec(&ba, 1, [1, 2, 3, 4]));
    m.ar.push(opt_rec(1232, 1, 0, 0xa55a, &[(10, vec![1, 2])]));
    let mut m2 = base_msg(&ba, refmodel::wire::T_A, true);
    m2.an.push(a_rec(&ba, 1, [1, 2, 3, 4]));
    // and a header-only packet, as `ParsedPacket::empty()` produces it (12 bytes, no question yet)
    vec![encode(&m, Strategy::Max), encode(&m2, Strategy::Plain), vec![0x12, 0x34, 0x01, 0, 0, 0, 0, 0, 0, 0, 0, 0]]
}

/// the object for a base packet: parsed, or for the header-only base a synthesised empty packet given that header
fn object_for(base: &[u8]) -> Result<ParsedPacket, String> {
    if base.len() == 12 {
        let mut e = ParsedPacket::empty();
        e.packet_mut().copy_from_slice(base);
        Ok(e)
    } else {
        crate::subj::parse(base)
    }
}

#[derive(Clone, Copy, Debug)]
enum Setter {
    Flags(u32),
    Opcode(u8),
    Rcode(u8),
    Response(bool),
    ResponseAssoc(bool),
    Tid(u16),
}

/// applies the setter to `pp` whose header word was set to `w`; compares with the bit-level reference
fn apply(pp: &mut ParsedPacket, base: &[u8], w: u16, s: Setter) -> Result<(), (String, String)> {
    apply_d(pp, base, w, s, true).map_err(|(n, k, what)| (format!("{}:{}", n, k), what))
}

/// `detail == false`: no description is built on a failure (the hot loops count failures by kind and ask for the
/// description of the first few only)
fn apply_d(pp: &mut ParsedPacket, base: &[u8], w: u16, s: Setter, detail: bool) -> Result<(), (&'static str, &'static str, String)> {
    {
        let p = pp.packet_mut();
        p[0] = base[0];
        p[1] = base[1];
        p[2] = (w >> 8) as u8;
        p[3] = w as u8;
        // every call starts from the base packet: bytes an earlier (faulty) call wrote outside the header word
        // are put back, so that they are charged to that call only
        if p.len() == base.len() && p[4..] != base[4..] {
            p[4..].copy_from_slice(&base[4..]);
        }
    }
    let ext = pp.ext_flags.unwrap_or(0) as u32;
    let (exp_w, exp_tid): (u16, u16) = match s {
        Setter::Flags(a) => ((w & 0x780f) | ((a as u16) & !0x780f), ((base[0] as u16) << 8) | base[1] as u16),
        Setter::Opcode(v) => ((w & !0x7800) | (((v & 0x0f) as u16) << 11), ((base[0] as u16) << 8) | base[1] as u16),
        Setter::Rcode(v) => ((w & !0x000f) | (v & 0x0f) as u16, ((base[0] as u16) << 8) | base[1] as u16),
        Setter::Response(b) | Setter::ResponseAssoc(b) => ((w & 0x7fff) | if b { 0x8000 } else { 0 }, ((base[0] as u16) << 8) | base[1] as u16),
        Setter::Tid(t) => (w, t),
    };
    match s {
        Setter::Flags(a) => pp.set_flags(a),
        Setter::Opcode(v) => pp.set_opcode(v),
        Setter::Rcode(v) => pp.set_rcode(v),
        Setter::Response(b) => pp.set_response(b),
        Setter::ResponseAssoc(b) => DNSSector::set_response(pp.packet_mut(), b),
        Setter::Tid(t) => pp.set_tid(t),
    }
    let name = match s {
        Setter::Flags(_) => "set_flags",
        Setter::Opcode(_) => "set_opcode",
        Setter::Rcode(_) => "set_rcode",
        Setter::Response(_) => "set_response",
        Setter::ResponseAssoc(_) => "DNSSector::set_response",
        Setter::Tid(_) => "set_tid",
    };
    let p = pp.packet();
    let got_w = ((p[2] as u16) << 8) | p[3] as u16;
    let got_tid = ((p[0] as u16) << 8) | p[1] as u16;
    let d = |f: &dyn Fn() -> String| if detail { f() } else { String::new() };
    if p.len() != base.len() || p[4..] != base[4..] {
        return Err((name, "touched_body", d(&|| format!("{} changed bytes outside the header word", name))));
    }
    if got_tid != exp_tid {
        return Err((name, "tid", d(&|| format!("{}: id is {:04x}, expected {:04x}", name, got_tid, exp_tid))));
    }
    if got_w != exp_w {
        return Err((name, "word", d(&|| format!("{} on header word {:04x} with {:?}: word is {:04x}, expected {:04x}", name, w, s, got_w, exp_w))));
    }
    // getters return the stored value truncated to the field width
    let ok = match s {
        Setter::Flags(a) => pp.flags() == (ext << 16) | ((a & 0xffff) as u32 & !0x780f),
        Setter::Opcode(v) => pp.opcode() == v & 0x0f,
        Setter::Rcode(v) => pp.rcode() == v & 0x0f,
        Setter::Response(b) | Setter::ResponseAssoc(b) => pp.is_response() == b && DNSSector::is_response(pp.packet()) == b,
        Setter::Tid(t) => pp.tid() == t,
    };
    if !ok {
        return Err((name, "getter", d(&|| format!("after {} {:?} on word {:04x} the getter does not return the stored value", name, s, w))));
    }
    Ok(())
}

fn upper_halves(seed: u64) -> Vec<u32> {
    let mut v: Vec<u32> = vec![0xffff];
    for b in 0..16 {
        v.push(1 << b);
    }
    let mut x = seed.wrapping_mul(0x9e3779b97f4a7c15) ^ 0xdeadbeefcafef00d;
    for _ in 0..16 {
        x ^= x << 13;
        x ^= x >> 7;
        x ^= x << 17;
        v.push((x & 0xffff) as u32);
    }
    v
}

fn run(ctx: &mut Ctx, rep: &mut Report) {
    let uppers = upper_halves(ctx.seed);
    let low_patterns: Vec<u32> = {
        let mut v = vec![0u32, 0xffff, 0x8000, 0x7800, 0x000f, 0x780f, 0x87f0];
        for b in 0..16 {
            v.push(1 << b);
            v.push(0xffff ^ (1 << b));
        }
        for k in 0..25u32 {
            v.push((k * 2621 + 17) & 0xffff);
        }
        v
    };
    for (bi, base) in bases().iter().enumerate() {
        let mut pp = object_for(base).expect("base packet");
        let mut local: std::collections::HashMap<(&'static str, &'static str), u64> = Default::default();
        // counts every failure; builds description and replay case for the first three of each kind only
        let mut hot = |rep: &mut Report, pp: &mut ParsedPacket, w: u16, s: Setter| {
            if let Err((n, k, _)) = apply_d(pp, base, w, s, false) {
                let c = local.entry((n, k)).or_insert(0);
                *c += 1;
                if *c <= 3 {
                    let (sig, what) = apply(pp, base, w, s).err().unwrap_or((format!("{}:{}", n, k), "the failure did not recur when the call was repeated on the same object".into()));
                    rep.violation(&sig, what, json!({"base": bi, "word": w, "setter": format!("{:?}", s)}));
                }
            }
        };
        for w in 0..=0xffffu32 {
            if !ctx.mine(w as u64) {
                continue;
            }
            let w = w as u16;
            if ctx.journaling() {
                ctx.journal(|| json!({"base": bi, "word": w, "setter": "all"}));
            }
            rep.states += 1;
            // set_flags: every low half
            for a in 0..=0xffffu32 {
                hot(rep, &mut pp, w, Setter::Flags(a));
            }
            rep.transitions += 65536;
            for u in &uppers {
                for l in &low_patterns {
                    let a = (u << 16) | l;
                    hot(rep, &mut pp, w, Setter::Flags(a));
                    rep.transitions += 1;
                }
            }
            for v in 0..=255u8 {
                hot(rep, &mut pp, w, Setter::Opcode(v));
                hot(rep, &mut pp, w, Setter::Rcode(v));
            }
            rep.transitions += 512;
            for b in [false, true] {
                hot(rep, &mut pp, w, Setter::Response(b));
                hot(rep, &mut pp, w, Setter::ResponseAssoc(b));
            }
            let base_tid = ((base[0] as u16) << 8) | base[1] as u16;
            for t in [0u16, 1, 0x00ff, 0xff00, 0x8000, 0x7fff, 0xffff, w, base_tid, base_tid.swap_bytes(), !base_tid, base_tid.rotate_left(4)] {
                hot(rep, &mut pp, w, Setter::Tid(t));
            }
            rep.transitions += 16;
            // classes: which fields of this word had bits a wrong mask would clobber
            rep.class(&format!("base={} opcode_bits={} rcode_bits={} qr={}", bi, (w & 0x7800 != 0) as u8, (w & 0xf != 0) as u8, (w >> 15)));
        }
        let _ = &mut hot;
        for ((n, k), c) in local {
            if c > 3 {
                rep.add_violation_count(&format!("{}:{}", n, k), c - 3);
            }
        }
    }
    // two setters in a row on a freshly parsed packet: the second must behave as if the first had never run
    // (apart from the header word the first one left)
    {
        let menu: Vec<Setter> = {
            let mut m = vec![Setter::Response(true), Setter::Response(false), Setter::ResponseAssoc(true), Setter::ResponseAssoc(false), Setter::Tid(0), Setter::Tid(0xffff), Setter::Tid(0x00ff), Setter::Tid(0xff00), Setter::Tid(0x3412), Setter::Tid(0x1234)];
            for v in [0u8, 1, 3, 5, 8, 15, 16, 0x2f, 0x80, 0xf0, 0xff] {
                m.push(Setter::Opcode(v));
                m.push(Setter::Rcode(v));
            }
            for a in [0u32, 0xffff, 0xffff_ffff, 0x8000, 0x0100, 0x0010, 0x0020, 0x0040, 0x0080, 0x780f, 0x0001_0000, 0x8000_0000, 0x5aa5_a55a] {
                m.push(Setter::Flags(a));
            }
            m
        };
        let mut words: Vec<u16> = vec![0, 0xffff, 0x8180, 0x0100, 0x8583, 0x7800, 0x000f, 0x87f0];
        for b in 0..16 {
            words.push(1 << b);
            words.push(!(1u16 << b));
        }
        let mut gi = 0u64;
        for (bi, base) in bases().iter().enumerate() {
            for &w in &words {
                for s1 in &menu {
                    gi += 1;
                    if !ctx.mine(gi) {
                        continue;
                    }
                    for s2 in &menu {
                        let r = (|| -> Result<(), (String, String)> {
                            let mut pp = object_for(base).map_err(|e| ("setup".to_string(), e))?;
                            apply(&mut pp, base, w, *s1)?;
                            let p = pp.packet().to_vec();
                            let w1 = ((p[2] as u16) << 8) | p[3] as u16;
                            apply(&mut pp, &p, w1, *s2).map_err(|(sig, what)| (format!("after_{}:{}", format!("{:?}", s1).split('(').next().unwrap_or("").to_lowercase(), sig), format!("after {:?}: {}", s1, what)))
                        })();
                        rep.transitions += 2;
                        if let Err(e) = r {
                            rep.violation(&e.0, e.1, json!({"base": bi, "word": w, "first": format!("{:?}", s1), "setter": format!("{:?}", s2)}));
                        }
                    }
                    rep.states += 1;
                }
            }
        }
        rep.class("pairs of setters on a fresh packet");
    }
    // one setter on an object with a history: calls that settle the packet (decompress it, fill the question
    // memo, insert a record) come first, in both orders; the setter must behave as on a fresh object
    {
        let mut menu: Vec<Setter> = vec![Setter::Response(true), Setter::Response(false), Setter::ResponseAssoc(true), Setter::ResponseAssoc(false), Setter::Tid(0), Setter::Tid(0xffff), Setter::Tid(0x3412)];
        for v in [0u8, 1, 2, 4, 8, 15, 16, 0x80, 0xff] {
            menu.push(Setter::Opcode(v));
            menu.push(Setter::Rcode(v));
        }
        for b in 0..32 {
            menu.push(Setter::Flags(1u32 << b));
        }
        for a in [0u32, 0xffff, 0xffff_ffff, 0x780f, 0x87f0, 0x5aa5_a55a] {
            menu.push(Setter::Flags(a));
        }
        let words: Vec<u16> = vec![0, 0xffff, 0x8180, 0x0100, 0x8583, 0x7800, 0x000f, 0x87f0, 0x0800, 0xf7ff];
        let mut gi = 0u64;
        for (bi, base) in bases().iter().enumerate() {
            for h in 0..HISTORIES {
                for &w in &words {
                    gi += 1;
                    if !ctx.mine(gi) {
                        continue;
                    }
                    for s in &menu {
                        let r = (|| -> Result<(), (String, String)> {
                            let mut pp = object_for(base).map_err(|e| ("setup".to_string(), e))?;
                            caught(|| history(&mut pp, h)).map_err(|p| (format!("history:panic:{}", panic_site(&p)), format!("the calls before the setter panicked: {}", p)))?;
                            let p = pp.packet().to_vec();
                            apply(&mut pp, &p, w, *s).map_err(|(sig, what)| (format!("with_history:{}", sig), format!("after history {} ({}): {}", h, HISTORY_NAMES[h], what)))
                        })();
                        rep.transitions += 1;
                        if let Err(e) = r {
                            rep.violation(&e.0, e.1, json!({"base": bi, "word": w, "history": h, "setter": format!("{:?}", s)}));
                        }
                    }
                    rep.states += 1;
                }
            }
        }
        rep.class("one setter on an object with a history");
    }
    rep.sample(|| json!({"base": hex(&bases()[0]), "word": "0x8180", "setter": "Flags(0x00000100)", "expected_word": "0x0100 | (0x8180 & 0x780f)"}));
    rep.evaluations = rep.transitions;
}

const HISTORIES: usize = 8;
const HISTORY_NAMES: [&str; HISTORIES] = ["uncompress through a cursor", "question_raw0", "uncompress through a cursor, question_raw0", "question_raw0, uncompress through a cursor", "insert_rr_from_string, question_raw0", "question, insert_rr_from_string", "uncompress through a cursor, recompute, question_raw", "question_raw0, rename"];

/// calls made before the setter under test (their own results are other properties' business)
fn history(pp: &mut ParsedPacket, h: usize) {
    // in-place decompression through the public cursor (`recompute()` alone has the documented precondition
    // that the bytes were decompressed just before)
    fn settle(pp: &mut ParsedPacket) {
        if let Some(mut it) = pp.into_iter_question() {
            let _ = it.uncompress();
        }
    }
    match h {
        0 => settle(pp),
        1 => {
            let _ = pp.question_raw0();
        }
        2 => {
            settle(pp);
            let _ = pp.question_raw0();
        }
        3 => {
            let _ = pp.question_raw0();
            settle(pp);
        }
        4 => {
            let _ = pp.insert_rr_from_string(Section::Additional, "x.y. 1 IN A 1.2.3.4");
            let _ = pp.question_raw0();
        }
        5 => {
            let _ = pp.question();
            let _ = pp.insert_rr_from_string(Section::Additional, "x.y. 1 IN A 1.2.3.4");
        }
        6 => {
            settle(pp);
            let _ = pp.recompute();
            let _ = pp.question_raw();
        }
        _ => {
            let _ = pp.question_raw0();
            let _ = pp.rename_with_raw_names(&[1, b'k', 0], &[1, b'a', 0], true);
        }
    }
}

fn parse_setter(s: &str) -> Option<Setter> {
    let inner = s.split('(').nth(1)?.trim_end_matches(')');
    Some(match s.split('(').next()? {
        "Flags" => Setter::Flags(inner.parse().ok()?),
        "Opcode" => Setter::Opcode(inner.parse().ok()?),
        "Rcode" => Setter::Rcode(inner.parse().ok()?),
        "Response" => Setter::Response(inner == "true"),
        "ResponseAssoc" => Setter::ResponseAssoc(inner == "true"),
        "Tid" => Setter::Tid(inner.parse().ok()?),
        _ => return None,
    })
}

fn replay(case: &Value) -> Result<String, String> {
    let bi = case["base"].as_u64().unwrap_or(0) as usize;
    let w = case["word"].as_u64().unwrap_or(0) as u16;
    let base = bases()[bi].clone();
    let mut pp = object_for(&base)?;
    let setters: Vec<Setter> = match case["setter"].as_str() {
        Some("all") | None => return Ok("journal entry (no single setter)".into()),
        Some(s) => vec![parse_setter(s).ok_or("bad setter")?],
    };
    let (mut base, mut w) = (base, w);
    if let Some(h) = case["history"].as_u64() {
        println!("history {}: {}", h, HISTORY_NAMES[h as usize % HISTORIES]);
        history(&mut pp, h as usize);
        base = pp.packet().to_vec();
    }
    if let Some(first) = case["first"].as_str().and_then(parse_setter) {
        println!("header word {:04x}, first {:?}", w, first);
        apply(&mut pp, &base, w, first).map_err(|(sig, what)| format!("[{}] {}", sig, what))?;
        base = pp.packet().to_vec();
        w = ((base[2] as u16) << 8) | base[3] as u16;
    }
    for s in setters {
        println!("header word {:04x}, {:?}", w, s);
        apply(&mut pp, &base, w, s).map_err(|(sig, what)| format!("[{}] {}", sig, what))?;
    }
    Ok("setter behaves".into())
}
