//! Shared exploration plumbing: worker subprocesses, reports, evidence, replays, known findings.

use serde_json::{json, Map, Value};
use std::collections::BTreeMap;
use std::io::Write;
use std::panic::{self, AssertUnwindSafe};
use std::process::{Command, Stdio};
use std::time::{Duration, Instant};

#[derive(Clone, Copy, Debug, PartialEq, Eq)]
pub enum Tier {
    Quick,
    Thorough,
}

impl Tier {
    pub fn name(&self) -> &'static str {
        match self {
            Tier::Quick => "quick",
            Tier::Thorough => "thorough",
        }
    }
    pub fn pick<T>(&self, q: T, t: T) -> T {
        match self {
            Tier::Quick => q,
            Tier::Thorough => t,
        }
    }
}

pub struct Ctx {
    pub prop: String,
    pub tier: Tier,
    pub seed: u64,
    pub shard: usize,
    pub nshards: usize,
    pub deadline: Instant,
    pub journal: Option<std::fs::File>,
}

impl Ctx {
    #[inline]
    pub fn mine(&self, i: u64) -> bool {
        (i % self.nshards as u64) as usize == self.shard
    }
    pub fn timed_out(&self) -> bool {
        Instant::now() >= self.deadline
    }
    /// In journal mode (re-run after a worker crash) records the case about to be executed.
    #[inline]
    pub fn journal(&mut self, f: impl FnOnce() -> Value) {
        if let Some(file) = self.journal.as_mut() {
            let mut s = f().to_string();
            s.push('\n');
            let _ = file.write_all(s.as_bytes());
            let _ = file.flush();
        }
    }
    pub fn journaling(&self) -> bool {
        self.journal.is_some()
    }
}

#[derive(Clone, Debug)]
pub struct Violation {
    /// the worker shard that observed it (set by the parent when merging)
    pub shard: Option<usize>,
    /// stable signature used to match known findings: "<what fails>" at the granularity of a
    /// call site / failing condition, never of a whole property
    pub sig: String,
    pub what: String,
    pub case: Value,
}

#[derive(Default, Debug)]
pub struct Report {
    pub evaluations: u64,
    pub states: u64,
    pub transitions: u64,
    pub classes: BTreeMap<String, u64>,
    pub samples: Vec<Value>,
    pub violations: Vec<Violation>,
    pub violation_counts: BTreeMap<String, u64>,
    pub caps: Vec<String>,
    pub extra: BTreeMap<String, u64>,
    pub notes: Vec<String>,
    pub vacuity: Vec<String>,
}

pub const MAX_VIOLATIONS_PER_SIG: usize = 3;
pub const MAX_SAMPLES: usize = 6;

impl Report {
    pub fn class(&mut self, c: &str) {
        *self.classes.entry(c.to_string()).or_insert(0) += 1;
    }
    pub fn class_n(&mut self, c: &str, n: u64) {
        *self.classes.entry(c.to_string()).or_insert(0) += n;
    }
    pub fn bump(&mut self, k: &str, n: u64) {
        *self.extra.entry(k.to_string()).or_insert(0) += n;
    }
    pub fn sample(&mut self, f: impl FnOnce() -> Value) {
        if self.samples.len() < MAX_SAMPLES {
            self.samples.push(f());
        }
    }
    pub fn violation(&mut self, sig: &str, what: String, case: Value) {
        let n = self.violation_counts.entry(sig.to_string()).or_insert(0);
        *n += 1;
        if (*n as usize) <= MAX_VIOLATIONS_PER_SIG {
            self.violations.push(Violation {
                shard: None,
                sig: sig.to_string(),
                what,
                case,
            });
        }
    }
    /// adds `n` further occurrences of a signature already reported through `violation` (hot loops count
    /// locally and do not build a description for every occurrence)
    pub fn add_violation_count(&mut self, sig: &str, n: u64) {
        *self.violation_counts.entry(sig.to_string()).or_insert(0) += n;
    }
    pub fn cap(&mut self, s: String) {
        if !self.caps.contains(&s) {
            self.caps.push(s);
        }
    }
    pub fn to_json(&self) -> Value {
        json!({
            "evaluations": self.evaluations, "states": self.states, "transitions": self.transitions,
            "classes": self.classes, "samples": self.samples,
            "violations": self.violations.iter().map(|v| json!({"sig": v.sig, "what": v.what, "case": v.case})).collect::<Vec<_>>(),
            "violation_counts": self.violation_counts, "caps": self.caps, "extra": self.extra, "notes": self.notes,
            "vacuity": self.vacuity,
        })
    }
    pub fn merge_json(&mut self, v: &Value) {
        self.evaluations += v["evaluations"].as_u64().unwrap_or(0);
        self.states += v["states"].as_u64().unwrap_or(0);
        self.transitions += v["transitions"].as_u64().unwrap_or(0);
        if let Some(m) = v["classes"].as_object() {
            for (k, n) in m {
                *self.classes.entry(k.clone()).or_insert(0) += n.as_u64().unwrap_or(0);
            }
        }
        if let Some(m) = v["extra"].as_object() {
            for (k, n) in m {
                *self.extra.entry(k.clone()).or_insert(0) += n.as_u64().unwrap_or(0);
            }
        }
        if let Some(a) = v["samples"].as_array() {
            for s in a {
                if self.samples.len() < MAX_SAMPLES {
                    self.samples.push(s.clone());
                }
            }
        }
        if let Some(m) = v["violation_counts"].as_object() {
            for (k, n) in m {
                *self.violation_counts.entry(k.clone()).or_insert(0) += n.as_u64().unwrap_or(0);
            }
        }
        if let Some(a) = v["violations"].as_array() {
            for x in a {
                let sig = x["sig"].as_str().unwrap_or("").to_string();
                let have = self.violations.iter().filter(|y| y.sig == sig).count();
                if have < MAX_VIOLATIONS_PER_SIG {
                    self.violations.push(Violation {
                        shard: x["shard"].as_u64().map(|s| s as usize),
                        sig,
                        what: x["what"].as_str().unwrap_or("").to_string(),
                        case: x["case"].clone(),
                    });
                }
            }
        }
        for key in ["caps", "notes", "vacuity"] {
            if let Some(a) = v[key].as_array() {
                for c in a {
                    let s = c.as_str().unwrap_or("").to_string();
                    let dst = match key {
                        "caps" => &mut self.caps,
                        "notes" => &mut self.notes,
                        _ => &mut self.vacuity,
                    };
                    if !dst.contains(&s) {
                        dst.push(s);
                    }
                }
            }
        }
    }
}

// ---------------------------------------------------------------------------------------------
// panic capture

thread_local! {
    static LAST_PANIC: std::cell::RefCell<Option<String>> = const { std::cell::RefCell::new(None) };
}

pub fn install_panic_hook() {
    panic::set_hook(Box::new(|info| {
        let msg = if let Some(s) = info.payload().downcast_ref::<&str>() {
            s.to_string()
        } else if let Some(s) = info.payload().downcast_ref::<String>() {
            s.clone()
        } else {
            "<non-string panic>".to_string()
        };
        let loc = info
            .location()
            .map(|l| {
                let f = l.file();
                let f = f.rsplit('/').next().unwrap_or(f);
                format!("{}:{}", f, l.line())
            })
            .unwrap_or_default();
        LAST_PANIC.with(|p| *p.borrow_mut() = Some(format!("{} @ {}", msg, loc)));
    }));
}

/// Runs `f`, converting a panic into Err("message @ file:line").
pub fn caught<T>(f: impl FnOnce() -> T) -> Result<T, String> {
    let mine = crate::subj::default_ceiling_on();
    let r = panic::catch_unwind(AssertUnwindSafe(f));
    if mine {
        crate::subj::default_ceiling_off();
    }
    match r {
        Ok(v) => Ok(v),
        Err(_) => Err(LAST_PANIC
            .with(|p| p.borrow_mut().take())
            .unwrap_or_else(|| "<panic>".to_string())),
    }
}

static OP_STARTED_MS: std::sync::atomic::AtomicU64 = std::sync::atomic::AtomicU64::new(0);
static OP_WATCHDOG: std::sync::Once = std::sync::Once::new();

fn now_ms() -> u64 {
    use std::time::{SystemTime, UNIX_EPOCH};
    SystemTime::now().duration_since(UNIX_EPOCH).map(|d| d.as_millis() as u64).unwrap_or(1)
}

/// Runs one operation of the subject under a wall-clock guard: a call that has not returned after `OP_LIMIT_S`
/// seconds (a loop that passes no hook point, which only a changed library can contain) ends the process with
/// abort(). The parent then treats the worker as crashed and finds the case through the journal, and the replay
/// of that case is ended the same way, which counts as reproduced.
pub fn guarded<T>(f: impl FnOnce() -> T) -> T {
    use std::sync::atomic::Ordering::SeqCst;
    const OP_LIMIT_S: u64 = 20;
    OP_WATCHDOG.call_once(|| {
        std::thread::spawn(|| loop {
            std::thread::sleep(Duration::from_millis(250));
            let st = OP_STARTED_MS.load(SeqCst);
            if st != 0 && now_ms().saturating_sub(st) > OP_LIMIT_S * 1000 {
                eprintln!("an operation of the subject has been running for more than {} s: no termination, ending this process", OP_LIMIT_S);
                std::process::abort();
            }
        });
    });
    OP_STARTED_MS.store(now_ms(), SeqCst);
    let r = f();
    OP_STARTED_MS.store(0, SeqCst);
    r
}

/// "file:line" part of a caught panic string (stable part of a signature)
pub fn panic_site(p: &str) -> String {
    p.rsplit(" @ ").next().unwrap_or("").to_string()
}

// ---------------------------------------------------------------------------------------------
// parent side

pub struct Outcome {
    pub report: Report,
    pub crashed_shards: Vec<(usize, String)>,
    pub wall: f64,
}

fn exe() -> std::path::PathBuf {
    std::env::current_exe().expect("current_exe")
}

pub fn verif_root() -> std::path::PathBuf {
    if let Ok(r) = std::env::var("VERIF_ROOT") {
        return r.into();
    }
    // binary lives in <root>/mc/target/release/mc
    let mut p = exe();
    for _ in 0..4 {
        p.pop();
    }
    p
}

pub fn run_workers(prop: &str, tier: Tier, seed: u64, nshards: usize, budget_s: u64) -> Outcome {
    let t0 = Instant::now();
    let mut children = vec![];
    for shard in 0..nshards {
        let child = Command::new(exe())
            .args([
                "worker",
                prop,
                tier.name(),
                &shard.to_string(),
                &nshards.to_string(),
                &seed.to_string(),
                &budget_s.to_string(),
            ])
            .env_remove("RUST_BACKTRACE")
            .env_remove("RUST_LIB_BACKTRACE")
            .stdin(Stdio::null())
            .stdout(Stdio::piped())
            .stderr(Stdio::piped())
            .spawn()
            .expect("spawn worker");
        children.push((shard, child));
    }
    let mut report = Report::default();
    let mut crashed = vec![];
    // read all outputs concurrently to avoid pipe stalls
    let limit = Duration::from_secs(budget_s * 3 + 60);
    let handles: Vec<_> = children
        .into_iter()
        .map(|(shard, child)| {
            std::thread::spawn(move || {
                // watchdog: a worker stuck inside the subject (a loop that passes no hook) is killed
                let pid = child.id();
                let done = std::sync::Arc::new(std::sync::atomic::AtomicBool::new(false));
                let d2 = done.clone();
                let w = std::thread::spawn(move || {
                    let t0 = Instant::now();
                    while !d2.load(std::sync::atomic::Ordering::Relaxed) {
                        if t0.elapsed() > limit {
                            unsafe {
                                libc::kill(pid as i32, libc::SIGKILL);
                            }
                            return;
                        }
                        std::thread::sleep(Duration::from_millis(200));
                    }
                });
                let out = child.wait_with_output();
                done.store(true, std::sync::atomic::Ordering::Relaxed);
                let _ = w.join();
                (shard, out)
            })
        })
        .collect();
    for h in handles {
        let (shard, out) = h.join().expect("join");
        match out {
            Ok(o) => {
                let stdout = String::from_utf8_lossy(&o.stdout);
                let line = stdout.lines().rev().find(|l| l.starts_with('{'));
                match (o.status.success(), line) {
                    (true, Some(l)) => match serde_json::from_str::<Value>(l) {
                        Ok(mut v) => {
                            if let Some(a) = v["violations"].as_array_mut() {
                                for x in a.iter_mut() {
                                    x["shard"] = json!(shard);
                                }
                            }
                            report.merge_json(&v)
                        }
                        Err(e) => crashed.push((shard, format!("bad worker output: {}", e))),
                    },
                    _ => {
                        let err = String::from_utf8_lossy(&o.stderr);
                        let tail: String = err.lines().rev().take(5).collect::<Vec<_>>().join(" | ");
                        crashed.push((shard, format!("status={:?} stderr={}", o.status, tail)));
                    }
                }
            }
            Err(e) => crashed.push((shard, format!("wait failed: {}", e))),
        }
    }
    Outcome {
        report,
        crashed_shards: crashed,
        wall: t0.elapsed().as_secs_f64(),
    }
}

/// Re-runs a crashed shard with journaling on; returns the last journalled case.
pub fn find_crash_case(prop: &str, tier: Tier, seed: u64, shard: usize, nshards: usize, budget_s: u64) -> Option<Value> {
    let path = std::env::temp_dir().join(format!("mc-journal-{}-{}-{}", prop, shard, std::process::id()));
    let _ = std::fs::remove_file(&path);
    let st = Command::new(exe())
        .args([
            "worker",
            prop,
            tier.name(),
            &shard.to_string(),
            &nshards.to_string(),
            &seed.to_string(),
            &(budget_s * 20).to_string(),
        ])
        .env("VERIF_JOURNAL", &path)
        .env_remove("RUST_BACKTRACE")
        .stdin(Stdio::null())
        .stdout(Stdio::null())
        .stderr(Stdio::null())
        .status();
    let res = match st {
        Ok(s) if !s.success() => {
            let data = std::fs::read_to_string(&path).unwrap_or_default();
            data.lines().rev().find(|l| !l.trim().is_empty()).and_then(|l| serde_json::from_str(l).ok())
        }
        _ => None,
    };
    let _ = std::fs::remove_file(&path);
    res
}

/// Runs `mc replay <file>` in a subprocess; returns (exit code or -signal, last lines).
pub fn replay_subprocess(path: &std::path::Path, timeout: Duration) -> (i32, String) {
    let mut child = Command::new(exe())
        .args(["replay", path.to_str().unwrap()])
        .env_remove("RUST_BACKTRACE")
        .stdin(Stdio::null())
        .stdout(Stdio::piped())
        .stderr(Stdio::piped())
        .spawn()
        .expect("spawn replay");
    // drain both pipes while waiting, so that a talkative replay cannot block on a full pipe
    let mut so = child.stdout.take().unwrap();
    let mut se = child.stderr.take().unwrap();
    let t_out = std::thread::spawn(move || {
        let mut s = String::new();
        let _ = std::io::Read::read_to_string(&mut so, &mut s);
        s
    });
    let t_err = std::thread::spawn(move || {
        let mut s = String::new();
        let _ = std::io::Read::read_to_string(&mut se, &mut s);
        s
    });
    let t0 = Instant::now();
    let mut timed_out = false;
    let status = loop {
        match child.try_wait() {
            Ok(Some(st)) => break Some(st),
            Ok(None) => {
                if t0.elapsed() > timeout {
                    let _ = child.kill();
                    timed_out = true;
                    break child.wait().ok();
                }
                std::thread::sleep(Duration::from_millis(5));
            }
            Err(_) => break None,
        }
    };
    let mut s = t_out.join().unwrap_or_default();
    s.push_str(&t_err.join().unwrap_or_default());
    let tail: String = s.lines().rev().take(4).collect::<Vec<_>>().into_iter().rev().collect::<Vec<_>>().join(" | ");
    let tail: String = tail.chars().take(600).collect();
    if timed_out {
        return (-999, format!("timeout after {:?} | {}", timeout, tail));
    }
    use std::os::unix::process::ExitStatusExt;
    let code = match status {
        Some(st) => st.code().unwrap_or_else(|| -(st.signal().unwrap_or(0))),
        None => -998,
    };
    (code, tail)
}

// ---------------------------------------------------------------------------------------------
// known findings

pub struct Known {
    pub open: Vec<(String, String, String)>, // (property, sig, what)
}

pub fn load_known() -> Known {
    let path = verif_root().join("known_findings.json");
    let mut open = vec![];
    if let Ok(s) = std::fs::read_to_string(&path) {
        if let Ok(v) = serde_json::from_str::<Value>(&s) {
            if let Some(a) = v["findings"].as_array() {
                for f in a {
                    if f["status"].as_str() == Some("open") {
                        open.push((
                            f["property"].as_str().unwrap_or("").to_string(),
                            f["signature"].as_str().unwrap_or("").to_string(),
                            f["what"].as_str().unwrap_or("").to_string(),
                        ));
                    }
                }
            }
        }
    }
    Known { open }
}

// ---------------------------------------------------------------------------------------------
// evidence

pub struct EvidenceMeta<'a> {
    pub prop: &'a str,
    pub tier: Tier,
    pub seed: u64,
    pub rule: &'a str,
    pub assumptions: Vec<String>,
    pub bounds: Value,
    pub exhaustive_space: bool,
}

pub fn write_evidence(meta: &EvidenceMeta, rep: &Report, wall: f64, nviol: usize, known_hits: &[String]) {
    let distinct = rep.classes.len() as u64;
    let mut cov = Map::new();
    cov.insert("states".into(), json!(rep.states.max(1)));
    cov.insert("transitions".into(), json!(rep.transitions.max(1)));
    cov.insert("traces_validated_against_impl".into(), json!(rep.transitions));
    cov.insert("evaluations".into(), json!(rep.evaluations.max(rep.transitions).max(1)));
    cov.insert("distinct_nontrivial".into(), json!(distinct));
    cov.insert("rule".into(), json!(meta.rule));
    cov.insert("samples".into(), json!(rep.samples));
    cov.insert("exhaustive".into(), json!(meta.exhaustive_space && rep.caps.is_empty()));
    cov.insert("caps_hit".into(), json!(rep.caps));
    cov.insert("bounds".into(), meta.bounds.clone());
    cov.insert("outcome_classes".into(), json!(rep.classes));
    cov.insert("counters".into(), json!(rep.extra));
    cov.insert("notes".into(), json!(rep.notes));
    cov.insert("known_findings_reobserved".into(), json!(known_hits));
    cov.insert(
        "explanation".into(),
        json!("every explored case is an execution of the real implementation (no separate model): traces_validated_against_impl = transitions"),
    );
    let ev = json!({
        "property_id": meta.prop,
        "tier": meta.tier.name(),
        "seed": meta.seed,
        "level": "model_checking",
        "coverage": Value::Object(cov),
        "assumptions": meta.assumptions,
        "wall_s": (wall * 1000.0).round() / 1000.0,
        "violations": nviol,
    });
    let dir = verif_root().join("evidence");
    let _ = std::fs::create_dir_all(&dir);
    let path = dir.join(format!("{}.json", meta.prop));
    std::fs::write(&path, serde_json::to_string_pretty(&ev).unwrap() + "\n").expect("write evidence");
}

pub fn write_replay(prop: &str, idx: usize, v: &Violation) -> std::path::PathBuf {
    let dir = verif_root().join("replays");
    let _ = std::fs::create_dir_all(&dir);
    let mut h = 0xcbf29ce484222325u64;
    for b in v.case.to_string().bytes().chain(v.sig.bytes()) {
        h ^= b as u64;
        h = h.wrapping_mul(0x100000001b3);
    }
    let path = dir.join(format!("{}-{}-{:08x}.json", prop, idx, h as u32));
    let doc = json!({"property": prop, "signature": v.sig, "what": v.what, "case": v.case});
    std::fs::write(&path, serde_json::to_string_pretty(&doc).unwrap() + "\n").expect("write replay");
    path
}
