//! C01 (parsing is total) and C02 (accept set == restated policy): one enumeration, two oracles.

use crate::engine::*;
use crate::subj;
use crate::PropDef;
use dnssector::*;
use refmodel::gen::*;
use refmodel::msg::*;
use refmodel::wire::*;
use serde_json::{json, Value};

#[derive(Clone, Copy, PartialEq)]
enum Mode {
    Total,
    AcceptSet,
}

const ALPHA_Q: [u8; 9] = [0x00, 0x01, 0x02, 0x0c, 0x29, 0x2e, 0x40, 0x61, 0xc0];
const ALPHA_T: [u8; 14] = [0x00, 0x01, 0x02, 0x04, 0x06, 0x0c, 0x0f, 0x1c, 0x27, 0x29, 0x2e, 0x40, 0x61, 0xc0];

pub fn c01() -> PropDef {
    PropDef {
        id: "C01",
        rule: "inputs enumerated exhaustively per family (L1 header-menu x every tail over a byte alphabet; L2 one-record field product; L4 damage closure of seed packets; L5 length/chain grids; primitives x every offset); a case is non-trivial per distinct outcome class = (family, accepted | first failing policy clause)",
        run: |c, r| run(c, r, Mode::Total),
        replay: |v| replay(v, Mode::Total),
        bounds,
        assumptions: &[
            "a panic is how an out-of-bounds read manifests in this unsafe-free parser",
            "step ceiling 64*len+4096 on the hook counter is the non-termination detector",
        ],
        budget_s: |t| t.pick(40, 600),
        exhaustive: true,
        nshards: 16,
        post,
    }
}

pub fn c02() -> PropDef {
    PropDef {
        id: "C02",
        rule: "same enumeration as C01; oracle parse(x).is_ok() == wf(x).is_ok() with wf an independent executable restatement of the policy; distinct outcome classes = (family, accepted | first failing policy clause)",
        run: |c, r| run(c, r, Mode::AcceptSet),
        replay: |v| replay(v, Mode::AcceptSet),
        bounds,
        assumptions: &["the restated policy refmodel::wire::wf is the specification (DESIGN.md 2.1)"],
        budget_s: |t| t.pick(40, 600),
        exhaustive: true,
        nshards: 16,
        post,
    }
}

fn post(rep: &Report, _t: Tier) -> Vec<String> {
    let mut out = vec![];
    for c in ALL_CLAUSES.iter() {
        let name = format!(":{:?}", c);
        if !rep.classes.keys().any(|k| k.ends_with(&name)) {
            out.push(format!("policy clause {:?} is never the first failing clause of an explored input", c));
        }
    }
    for fam in ["L1", "L1r", "L2", "L2pair", "L2types", "L2class", "L2len", "L2field", "L4flags", "L4", "L5"] {
        if !rep.classes.contains_key(&format!("{}:accepted", fam)) {
            out.push(format!("family {} contains no accepted packet", fam));
        }
    }
    out
}

fn bounds(t: Tier) -> Value {
    json!({
        "L1_alphabet": t.pick(ALPHA_Q.to_vec(), ALPHA_T.to_vec()),
        "L1_max_tail": t.pick(6, 7),
        "L1q_max_tail": t.pick(7, 7),
        "L1r_max_tail": t.pick(5, 6),
        "L2": "full one-record field product",
        "L2types": "all 65536 record types x 8 data shapes x 3 sections; all 65536 classes in question and record; rdlen 0..40 for A/AAAA",
        "L4_seeds": closure_seeds(t.pick(0, 1)).len(),
        "L4_pairs": t.pick("none", "all pairs over 6 values on packets <= 80 bytes"),
        "L5": "label 62..64, name 253..256 (literal and via pointer), chains 0..18, lengths up to 131072",
    })
}

fn clause_name(r: &Result<(), Clause>) -> String {
    match r {
        Ok(()) => "accepted".to_string(),
        Err(c) => format!("{:?}", c),
    }
}

struct Sweep<'a> {
    ctx: &'a mut Ctx,
    rep: &'a mut Report,
    mode: Mode,
}

impl<'a> Sweep<'a> {
    fn one(&mut self, family: &'static str, x: &[u8]) {
        self.one_with(family, x, None)
    }

    /// `case`: how to rebuild the input when it is too large to be written out in a replay file
    fn one_with(&mut self, family: &'static str, x: &[u8], case: Option<Value>) {
        let case_json = |x: &[u8]| case.clone().unwrap_or_else(|| json!({"kind": "parse", "input": hex(x)}));
        if self.ctx.journaling() {
            self.ctx.journal(|| case_json(x));
        }
        self.rep.transitions += 1;
        self.rep.states += 1;
        let expected = wf(x);
        let got = parse_guarded(x);
        let key = format!("{}:{}", family, clause_name(&expected));
        self.rep.class(&key);
        match self.mode {
            Mode::Total => match &got {
                Err(p) => {
                    let sig = if p.contains("step ceiling") { "parse:nontermination".to_string() } else { format!("parse:panic:{}", panic_site(p)) };
                    self.rep.violation(&sig, format!("parse panicked: {}", p), case_json(x));
                }
                Ok(Ok(bytes)) => {
                    if bytes != x {
                        self.rep.violation("parse:bytes_changed", "parsed packet does not hold the input bytes".into(), case_json(x));
                    }
                }
                Ok(Err(_)) => {}
            },
            Mode::AcceptSet => {
                if let Ok(res) = &got {
                    let acc = res.is_ok();
                    if acc != expected.is_ok() {
                        let sig = if acc { format!("accepts_ill_formed:{}", clause_name(&expected)) } else { "rejects_well_formed".to_string() };
                        let what = if acc {
                            format!("parser accepts a packet that violates clause {}", clause_name(&expected))
                        } else {
                            format!("parser rejects a well-formed packet: {}", res.as_ref().err().cloned().unwrap_or_default())
                        };
                        self.rep.violation(&sig, what, case_json(x));
                    }
                }
                // a panic is C01's business, not C02's
            }
        }
        if self.rep.samples.len() < MAX_SAMPLES && expected.is_ok() && x.len() > 30 {
            self.rep.sample(|| json!({"family": family, "input": hex(x), "policy": "accepted"}));
        }
    }
}

/// The parse under the step ceiling. Inputs above 100 KB are parsed on a thread of the default size Rust gives a
/// spawned thread (2 MiB): recursion that grows with the input then ends the worker, which the engine reports.
fn parse_guarded(x: &[u8]) -> Result<Result<Vec<u8>, String>, String> {
    let run = |x: &[u8]| {
        subj::arm_steps(x.len());
        let got = caught(|| subj::parse(x).map(|p| p.packet().to_vec()));
        subj::disarm_steps();
        got
    };
    if x.len() <= 100_000 {
        return run(x);
    }
    std::thread::scope(|sc| std::thread::Builder::new().stack_size(2 << 20).spawn_scoped(sc, || run(x)).expect("spawn").join().unwrap_or_else(|_| Err("parse thread died".into())))
}

fn run(ctx: &mut Ctx, rep: &mut Report, mode: Mode) {
    let tier = ctx.tier;
    let mut sw = Sweep { ctx, rep, mode };
    let mut buf: Vec<u8> = Vec::with_capacity(64);
    let mut tail: Vec<u8> = Vec::with_capacity(16);

    // L1: header menu x tails
    let alpha: &[u8] = tier.pick(&ALPHA_Q[..], &ALPHA_T[..]);
    let tails = Tails { alphabet: alpha, max_len: tier.pick(6, 7) };
    let n = tails.count();
    let headers = header_menu();
    let mut gi = 0u64;
    for h in &headers {
        for i in 0..n {
            gi += 1;
            if !sw.ctx.mine(gi) {
                continue;
            }
            tails.get(i, &mut tail);
            buf.clear();
            buf.extend_from_slice(h);
            buf.extend_from_slice(&tail);
            sw.one("L1", &buf);
        }
    }
    // short prefixes of a header
    if sw.ctx.shard == 0 {
        for l in 0..12 {
            sw.one("L1short", &headers[13][..l]);
        }
    }
    // L1q: header + valid question, then tails (reaches the record parser byte-exhaustively)
    let tails = Tails { alphabet: alpha, max_len: 7 };
    let n = tails.count();
    for h in &header_q_menu() {
        for i in 0..n {
            gi += 1;
            if !sw.ctx.mine(gi) {
                continue;
            }
            tails.get(i, &mut tail);
            buf.clear();
            buf.extend_from_slice(h);
            buf.extend_from_slice(&tail);
            sw.one("L1q", &buf);
        }
    }
    // L1r: header + question + record prefix "root owner, type T, class IN, ttl" then tails = rdlen+rdata
    for t in [T_NS, T_MX, T_SOA, T_DNAME, T_OPT, T_A] {
        for sec in 0..3 {
            let mut h = vec![0x12, 0x34, 0x80, 0, 0, 1, 0, 0, 0, 0, 0, 0];
            h[7 + 2 * sec] = 1;
            h.extend_from_slice(&[1, b'a', 0, 0, 1, 0, 1, 0]);
            h.extend_from_slice(&t.to_be_bytes());
            h.extend_from_slice(&[0, 1, 0, 0, 0, 0, 0]);
            // now: low byte of rdlen + rdata from the tail
            let tails = Tails { alphabet: alpha, max_len: tier.pick(5, 6) };
            let n = tails.count();
            for i in 0..n {
                gi += 1;
                if !sw.ctx.mine(gi) {
                    continue;
                }
                tails.get(i, &mut tail);
                buf.clear();
                buf.extend_from_slice(&h);
                buf.extend_from_slice(&tail);
                sw.one("L1r", &buf);
            }
        }
    }
    // L2
    {
        let ctxp: *mut Sweep = &mut sw;
        one_record_packets(|i, p| {
            let sw = unsafe { &mut *ctxp };
            if sw.ctx.mine(i) {
                sw.one("L2", p);
            }
        });
    }
    // L2pair: two records from a menu of complete records, every section split, every order
    {
        let recs: Vec<Vec<u8>> = vec![
            vec![0, 0, 41, 4, 0, 0, 0, 0, 0, 0, 0],
            vec![0, 0, 41, 2, 0, 1, 0, 0x80, 0, 0, 4, 0, 8, 0, 0],
            vec![0, 0, 1, 0, 1, 0, 0, 0, 1, 0, 4, 1, 2, 3, 4],
            vec![0xc0, 12, 0, 2, 0, 1, 0, 0, 0, 1, 0, 2, 0xc0, 12],
            vec![1, b'b', 0xc0, 12, 0, 15, 0, 1, 0, 0, 0, 1, 0, 4, 0, 1, 0xc0, 19],
            vec![0xc0, 12, 0, 41, 4, 0, 0, 0, 0, 0, 0, 0],
        ];
        let mut i = 0u64;
        for qr in [0x80u8, 0] {
            for (an, ns, ar) in [(0u8, 0u8, 2u8), (1, 0, 1), (0, 1, 1), (2, 0, 0), (1, 1, 0), (0, 2, 0)] {
                for a in &recs {
                    for b in &recs {
                        i += 1;
                        if !sw.ctx.mine(i) {
                            continue;
                        }
                        let mut p = vec![0x12, 0x34, qr, 0, 0, 1, 0, an, 0, ns, 0, ar];
                        p.extend_from_slice(&[1, b'a', 0, 0, 1, 0, 1]);
                        p.extend_from_slice(a);
                        p.extend_from_slice(b);
                        sw.one("L2pair", &p);
                    }
                }
            }
        }
    }
    // L2types: every 16-bit record type x a few data shapes x every section; every 16-bit class in the
    // question and in a record; every rdlen 0..40 for A and AAAA
    {
        let mut i = 0u64;
        let base = |sec: usize| {
            let mut p = vec![0x12, 0x34, 0x80, 0, 0, 1, 0, 0, 0, 0, 0, 0];
            p[7 + 2 * sec] = 1;
            p.extend_from_slice(&[1, b'a', 0, 0, 1, 0, 1]);
            p
        };
        for t in 0..=0xffffu32 {
            for sec in 0..3usize {
                i += 1;
                if !sw.ctx.mine(i) {
                    continue;
                }
                for (rdlen, data) in [(0usize, 0usize), (1, 1), (3, 3), (4, 4), (16, 16), (22, 22), (5, 4), (3, 4)] {
                    let mut p = base(sec);
                    p.extend_from_slice(&[0xc0, 12]);
                    p.extend_from_slice(&(t as u16).to_be_bytes());
                    p.extend_from_slice(&[0, 1, 0, 0, 0, 1]);
                    p.extend_from_slice(&(rdlen as u16).to_be_bytes());
                    p.extend(std::iter::repeat(0u8).take(data));
                    sw.one("L2types", &p);
                }
            }
        }
        for c in 0..=0xffffu32 {
            i += 1;
            if !sw.ctx.mine(i) {
                continue;
            }
            let mut q = vec![0x12, 0x34, 0x80, 0, 0, 1, 0, 0, 0, 0, 0, 0, 1, b'a', 0, 0, 1];
            q.extend_from_slice(&(c as u16).to_be_bytes());
            sw.one("L2class", &q);
            let mut p = base(0);
            p.extend_from_slice(&[0xc0, 12, 0, 1]);
            p.extend_from_slice(&(c as u16).to_be_bytes());
            p.extend_from_slice(&[0, 0, 0, 1, 0, 4, 1, 2, 3, 4]);
            sw.one("L2class", &p);
            // every class x every type whose data the policy constrains x {no data, minimal valid data}
            for (t, valid) in [(T_A, &[1u8, 2, 3, 4][..]), (T_NS, &[0][..]), (T_CNAME, &[0xc0, 12][..]), (T_SOA, &[0, 0, 0, 0, 0, 1, 0, 0, 0, 2, 0, 0, 0, 3, 0, 0, 0, 4, 0, 0, 0, 5][..]), (T_PTR, &[1, b'p', 0][..]), (T_MX, &[0, 5, 0][..]), (T_AAAA, &[0u8; 16][..]), (39, &[0][..]), (T_TXT, &[0][..])] {
                for data in [&[][..], valid] {
                    let mut p = base(0);
                    p.extend_from_slice(&[0xc0, 12]);
                    p.extend_from_slice(&t.to_be_bytes());
                    p.extend_from_slice(&(c as u16).to_be_bytes());
                    p.extend_from_slice(&[0, 0, 0, 1]);
                    p.extend_from_slice(&(data.len() as u16).to_be_bytes());
                    p.extend_from_slice(data);
                    sw.one("L2class", &p);
                }
            }
        }
        for t in [T_A, T_AAAA] {
            for rdlen in 0..=40usize {
                for data in [rdlen, rdlen + 1, rdlen.saturating_sub(1)] {
                    i += 1;
                    if !sw.ctx.mine(i) {
                        continue;
                    }
                    let mut p = base(2);
                    p.extend_from_slice(&[0]);
                    p.extend_from_slice(&t.to_be_bytes());
                    p.extend_from_slice(&[0, 1, 0, 0, 0, 1]);
                    p.extend_from_slice(&(rdlen as u16).to_be_bytes());
                    p.extend(std::iter::repeat(7u8).take(data));
                    sw.one("L2types", &p);
                }
            }
        }
    }
    // every 16-bit value of every length field
    {
        let ctxp: *mut Sweep = &mut sw;
        length_field_packets(|i, p| {
            let sw = unsafe { &mut *ctxp };
            if sw.ctx.mine(i) {
                sw.one("L2len", p);
            }
        });
    }
    // every value of every count, every pointer target, every leading byte pair of a name
    {
        let ctxp: *mut Sweep = &mut sw;
        field_value_packets(|i, p| {
            let sw = unsafe { &mut *ctxp };
            if sw.ctx.mine(i) {
                sw.one("L2field", p);
            }
        });
    }
    // header flags x inflated counts x every truncation
    {
        let ctxp: *mut Sweep = &mut sw;
        flags_truncation_packets(|i, p| {
            let sw = unsafe { &mut *ctxp };
            if sw.ctx.mine(i) {
                sw.one("L4flags", p);
            }
        });
    }
    // root question name, lying counts, every short tail over pointer-ish bytes
    {
        let ctxp: *mut Sweep = &mut sw;
        root_pointer_packets(tier.pick(8, 9), |i, p| {
            let sw = unsafe { &mut *ctxp };
            if sw.ctx.mine(i) {
                sw.one("L1root", p);
            }
        });
    }
    // very many genuine minimal records (up to 65535, packets up to 1 MB)
    for (i, mp) in many_params().into_iter().enumerate() {
        if !sw.ctx.mine(i as u64) {
            continue;
        }
        let x = many_record_packet(mp);
        sw.one_with("L6many", &x, Some(json!({"kind": "many", "k": mp.kind, "n": mp.n, "split": mp.split, "q": mp.q})));
    }
    // L4
    let seeds = closure_seeds(tier.pick(0, 1));
    for s in &seeds {
        let ctxp: *mut Sweep = &mut sw;
        damage_closure(s, |i, p| {
            let sw = unsafe { &mut *ctxp };
            if sw.ctx.mine(i) {
                sw.one("L4", p);
            }
        });
    }
    if tier == Tier::Thorough {
        for s in seeds.iter().filter(|s| s.len() <= 80) {
            let ctxp: *mut Sweep = &mut sw;
            damage_pairs(s, &[0, 1, 0x3f, 0x40, 0xc0, 0xff], |i, p| {
                let sw = unsafe { &mut *ctxp };
                if sw.ctx.mine(i) {
                    sw.one("L4pairs", p);
                }
            });
        }
    }
    // L5 grids
    let mut l5: Vec<Vec<u8>> = vec![];
    for k in 0..=18 {
        for sl in [1usize, 13, 14, 15, 63] {
            l5.push(pointer_chain_packet(k, sl));
        }
    }
    for total in [1usize, 2, 3, 64, 65, 66, 253, 254, 255, 256, 257] {
        let n = name_of_wire_len(total);
        // as question name
        let mut p = vec![0x12, 0x34, 0x80, 0, 0, 1, 0, 0, 0, 0, 0, 0];
        p.extend_from_slice(&n);
        p.extend_from_slice(&[0, 1, 0, 1]);
        l5.push(p.clone());
        // as CNAME target reached by prefix label + pointer to the question name: total + 2
        let mut p2 = p.clone();
        p2[7] = 1;
        p2.extend_from_slice(&[0xc0, 12, 0, 5, 0, 1, 0, 0, 0, 1, 0, 4, 1, b'p', 0xc0, 12]);
        l5.push(p2);
        let mut p3 = p.clone();
        p3[7] = 1;
        p3.extend_from_slice(&[0xc0, 12, 0, 39, 0, 1, 0, 0, 0, 1]);
        p3.extend_from_slice(&(n.len() as u16).to_be_bytes());
        p3.extend_from_slice(&n);
        l5.push(p3);
    }
    for ll in [62usize, 63, 64, 65] {
        let mut p = vec![0x12, 0x34, 0x80, 0, 0, 1, 0, 0, 0, 0, 0, 0];
        p.push(ll as u8);
        p.extend(std::iter::repeat(b'l').take(ll));
        p.extend_from_slice(&[0, 0, 1, 0, 1]);
        l5.push(p);
    }
    // lying counts
    for (pos, val) in [(4usize, 0xffu8), (6, 0xff), (8, 0xff), (10, 0xff), (5, 0), (5, 2)] {
        let mut p = kitchen_sink(Strategy::Max);
        p[pos] = val;
        l5.push(p);
    }
    // big lengths: valid packet padded by a big opaque record, and junk
    for total in [65535usize, 65536, 70000, 131072] {
        l5.push(vec![0u8; total]);
        l5.push(vec![0xc0u8; total]);
        let mut p = vec![0x12, 0x34, 0x80, 0, 0, 1, 0, 0, 0, 0, 0, 0];
        p.extend_from_slice(&[1, b'a', 0, 0, 1, 0, 1]);
        // as many max-size opaque records as needed
        let mut count = 0u16;
        while p.len() + 11 < total {
            let room = (total - p.len() - 11).min(65535);
            p.push(0);
            p.extend_from_slice(&[0, 99, 0, 1, 0, 0, 0, 0]);
            p.extend_from_slice(&(room as u16).to_be_bytes());
            p.extend(std::iter::repeat(0xc0u8).take(room));
            count += 1;
        }
        p[11] = count as u8;
        l5.push(p);
    }
    // pointers into bytes that were never validated as a name (opaque data, DNAME target, TXT) and hold
    // label bytes the record-name policy forbids, or sound ones
    for bad in [b'.', b'\\', 0x00, 0x1f, 0x7f, b'x'] {
        for holder in [16u16, 39, 99] {
            for user in [0usize, 1, 2, 3] {
                let mut p = vec![0x12, 0x34, 0x80, 0, 0, 1, 0, 2, 0, 0, 0, 0];
                p.extend_from_slice(&[1, b'a', 0, 0, 1, 0, 1]);
                // holder record: data = [2, 'o', bad, 1, 'k', 0] (a pointer-free name as far as bytes go)
                p.push(0);
                p.extend_from_slice(&holder.to_be_bytes());
                p.extend_from_slice(&[0, 1, 0, 0, 0, 1, 0, 6]);
                let at = p.len();
                p.extend_from_slice(&[2, b'o', bad, 1, b'k', 0]);
                let ptr = [0xc0 | (at >> 8) as u8, at as u8];
                match user {
                    0 => {
                        p.extend_from_slice(&ptr);
                        p.extend_from_slice(&[0, 1, 0, 1, 0, 0, 0, 1, 0, 4, 1, 2, 3, 4]);
                    }
                    1 => {
                        p.extend_from_slice(&[0xc0, 12, 0, 5, 0, 1, 0, 0, 0, 1, 0, 2]);
                        p.extend_from_slice(&ptr);
                    }
                    2 => {
                        p.extend_from_slice(&[1, b'w']);
                        p.extend_from_slice(&ptr);
                        p.extend_from_slice(&[0, 15, 0, 1, 0, 0, 0, 1, 0, 4, 0, 1]);
                        p.extend_from_slice(&ptr);
                    }
                    _ => {
                        p.extend_from_slice(&[0xc0, 12, 0, 6, 0, 1, 0, 0, 0, 1, 0, 24]);
                        p.extend_from_slice(&ptr);
                        p.extend_from_slice(&[0xc0, 12]);
                        p.extend_from_slice(&[0; 20]);
                    }
                }
                l5.push(p);
            }
        }
    }
    l5.extend(permuted_chain_packets());
    // names that run through the header bytes (pointer targets 0..11), and the same packets with every pointer
    // target 0..=13 in the question name
    for p in into_header_packets() {
        for t in 0..=13u8 {
            let mut q = p.clone();
            if q.len() > 13 && q[12] == 0xc0 {
                q[13] = t;
                l5.push(q);
            }
        }
        l5.push(p);
    }
    for l in 0..=255usize {
        for t in [39u16, 2, 15] {
            let mut name = vec![l as u8];
            name.extend(std::iter::repeat(b'd').take(l));
            name.push(0);
            let mut p = vec![0x12, 0x34, 0x80, 0, 0, 1, 0, 1, 0, 0, 0, 0, 1, b'a', 0, 0, 1, 0, 1, 0xc0, 12];
            p.extend_from_slice(&t.to_be_bytes());
            p.extend_from_slice(&[0, 1, 0, 0, 0, 1]);
            let extra = if t == 15 { 2 } else { 0 };
            p.extend_from_slice(&((name.len() + extra) as u16).to_be_bytes());
            if t == 15 {
                p.extend_from_slice(&[0, 5]);
            }
            p.extend_from_slice(&name);
            l5.push(p);
        }
    }
    for (i, p) in l5.iter().enumerate() {
        if sw.ctx.mine(i as u64) {
            sw.one("L5", p);
        }
    }
    // primitives (C01 only)
    if mode == Mode::Total {
        primitives(&mut sw, &seeds);
    }
    // vacuity: every policy clause must be the first-failing clause of some explored input
    // (checked by the parent over merged classes; see check_vacuity)
}

fn primitives(sw: &mut Sweep, seeds: &[Vec<u8>]) {
    let tails = Tails { alphabet: &ALPHA_Q, max_len: 4 };
    let n = tails.count();
    let mut bufs: Vec<Vec<u8>> = vec![];
    let mut t = vec![];
    for i in 0..n {
        tails.get(i, &mut t);
        bufs.push(t.clone());
    }
    for s in seeds.iter().take(3) {
        bufs.push(s.clone());
    }
    bufs.push(vec![0xc0; 70000]);
    // a label of every announced length with that many bytes really present, then the root
    for l in 0..=255usize {
        let mut b = vec![l as u8];
        b.extend(std::iter::repeat(b'x').take(l));
        b.push(0);
        bufs.push(b.clone());
        let mut two = vec![1, b'p'];
        two.extend_from_slice(&b);
        bufs.push(two);
    }
    for (bi, b) in bufs.iter().enumerate() {
        if !sw.ctx.mine(bi as u64) {
            continue;
        }
        let mut offs: Vec<usize> = (0..b.len().min(400) + 3).collect();
        offs.extend_from_slice(&[b.len().saturating_sub(1), b.len(), b.len() + 1, 1 << 16, 1 << 32, usize::MAX - 1, usize::MAX]);
        for &o in &offs {
            if sw.ctx.journaling() {
                sw.ctx.journal(|| json!({"kind": "prim", "buf": hex(b), "offset": o as u64}));
            }
            sw.rep.transitions += 1;
            let r = prim_case(b, o);
            match r {
                Ok(cls) => sw.rep.class(&format!("prim:{}", cls)),
                Err((sig, what)) => sw.rep.violation(&sig, what, json!({"kind": "prim", "buf": hex(b), "offset": o as u64})),
            }
        }
    }
}

/// runs every public primitive on (buffer, offset/increment)
fn prim_case(b: &[u8], o: usize) -> Result<String, (String, String)> {
    let mut cls = String::new();
    subj::arm_steps(b.len());
    let r = caught(|| Compress::check_compressed_name(b, o).map_err(|e| e.to_string()));
    match r {
        Err(p) => { subj::disarm_steps(); return Err((format!("check_compressed_name:panic:{}", panic_site(&p)), format!("check_compressed_name panicked: {}", p))) }
        Ok(Ok(end)) => {
            if end > b.len() { subj::disarm_steps(); return Err(("check_compressed_name:end_oob".into(), format!("returned end {} > len {}", end, b.len()))); }
            let exp = name_strict(b, o);
            if exp.as_ref().map(|i| i.end).ok() != Some(end) { subj::disarm_steps(); return Err(("check_compressed_name:verdict".into(), format!("accepted with end {}, reference says {:?}", end, exp.map(|i| i.end)))); }
            cls.push_str("ccn_ok,");
        }
        Ok(Err(_)) => {
            if name_strict(b, o).is_ok() { subj::disarm_steps(); return Err(("check_compressed_name:verdict".into(), "rejected a name the reference accepts".into())); }
            cls.push_str("ccn_err,");
        }
    }
    subj::arm_steps(b.len());
    let r = caught(|| DNSSector::check_uncompressed_name(b, o).map_err(|e| e.to_string()));
    match r {
        Err(p) => { subj::disarm_steps(); return Err((format!("check_uncompressed_name:panic:{}", panic_site(&p)), format!("check_uncompressed_name panicked: {}", p))) }
        Ok(Ok(end)) => {
            let exp = name_plain(b, o);
            if exp.as_ref().map(|i| i.end).ok() != Some(end) { subj::disarm_steps(); return Err(("check_uncompressed_name:verdict".into(), format!("accepted with end {}, reference says {:?}", end, exp.map(|i| i.end)))); }
            cls.push_str("cun_ok,");
        }
        Ok(Err(_)) => {
            if name_plain(b, o).is_ok() { subj::disarm_steps(); return Err(("check_uncompressed_name:verdict".into(), "rejected a name the reference accepts".into())); }
            cls.push_str("cun_err,");
        }
    }
    subj::disarm_steps();
    // cursor primitives
    let r = caught(|| {
        let mut ds = DNSSector::new(b.to_vec()).map_err(|e| e.to_string())?;
        let a = ds.set_offset(o).is_ok();
        if ds.offset > ds.packet.len() { return Err(format!("set_offset left offset {} > len", ds.offset)); }
        if a != (o < b.len()) { return Err(format!("set_offset({}) on a {}-byte buffer returned ok={}", o, b.len(), a)); }
        if a && ds.offset != o { return Err(format!("set_offset({}) left the cursor at {}", o, ds.offset)); }
        if !a && ds.offset != 0 { return Err(format!("a rejected set_offset({}) moved the cursor to {}", o, ds.offset)); }
        let at = ds.offset;
        let rd = ds.rr_rdlen();
        let want = if at + 10 <= b.len() { Some(((b[at + 8] as usize) << 8) | b[at + 9] as usize) } else { None };
        if rd.as_ref().ok().copied() != want { return Err(format!("rr_rdlen() at {} of a {}-byte buffer returned {:?}, the bytes say {:?}", at, b.len(), rd.map_err(|e| e.to_string()), want)); }
        let r1 = want.is_some();
        // outside an OPT record (no option area known) there is nothing to read
        let r2 = ds.edns_rr_rdlen().is_ok();
        if r2 { return Err(format!("edns_rr_rdlen() at {} succeeded outside any option area", at)); }
        if ds.clone().into_packet() != b { return Err("into_packet() does not give the buffer back".into()); }
        let mut incs = vec![0usize, 1, 2, o, b.len(), b.len() + 1, usize::MAX, usize::MAX - at, (usize::MAX - at).wrapping_add(1), usize::MAX - 1, usize::MAX / 2 + 1, b.len() - at, b.len() - at + 1];
        incs.dedup();
        let mut okc = 0;
        for inc in incs {
            let mut d2 = ds.clone();
            let ok = d2.increment_offset(inc).is_ok();
            if ok { okc += 1; }
            if d2.offset > d2.packet.len() { return Err(format!("increment_offset({}) from {} left offset {} > len {}", inc, at, d2.offset, d2.packet.len())); }
            let fits = inc <= b.len() - at;
            if ok != fits { return Err(format!("increment_offset({}) from {} on a {}-byte buffer returned ok={}", inc, at, b.len(), ok)); }
            if d2.offset != if fits { at + inc } else { at } { return Err(format!("increment_offset({}) from {} left the cursor at {}", inc, at, d2.offset)); }
            let rd = d2.rr_rdlen().ok();
            let a2 = d2.offset;
            if rd != if a2 + 10 <= b.len() { Some(((b[a2 + 8] as usize) << 8) | b[a2 + 9] as usize) } else { None } { return Err(format!("rr_rdlen() at {} of a {}-byte buffer returned {:?}", a2, b.len(), rd)); }
            let _ = d2.edns_rr_rdlen();
        }
        Ok(format!("so{}_rd{}_ed{}_inc{}", a as u8, r1 as u8, r2 as u8, okc))
    });
    match r {
        Err(p) => Err((format!("cursor:panic:{}", panic_site(&p)), format!("cursor primitive panicked: {}", p))),
        Ok(Err(e)) => Err(("cursor:offset_oob".into(), e)),
        Ok(Ok(c)) => { cls.push_str(&c); Ok(cls) }
    }
}

fn replay(case: &Value, mode: Mode) -> Result<String, String> {
    match case["kind"].as_str() {
        Some("parse") | Some("many") => {
            let x = if case["kind"].as_str() == Some("many") {
                let u = |k: &str| case[k].as_u64().unwrap_or(0) as usize;
                many_record_packet(ManyParams { kind: u("k"), n: u("n"), split: u("split"), q: u("q") })
            } else {
                unhex(case["input"].as_str().unwrap_or(""))
            };
            let expected = wf(&x);
            let got = parse_guarded(&x);
            println!("input ({} bytes): {}", x.len(), if x.len() <= 200 { hex(&x) } else { format!("{}...", hex(&x[..200])) });
            println!("policy verdict: {}", clause_name(&expected));
            println!("parser: {:?}", got.as_ref().map(|r| r.as_ref().map(|_| "Ok").map_err(|e| e.clone())));
            match mode {
                Mode::Total => match got {
                    Err(p) => Err(format!("parse panicked: {}", p)),
                    Ok(Ok(b)) if b != x => Err("parsed packet does not hold the input bytes".into()),
                    _ => Ok("parse returned normally".into()),
                },
                Mode::AcceptSet => match got {
                    Ok(r) if r.is_ok() != expected.is_ok() => Err(format!("parser accepted={} policy accepted={}", r.is_ok(), expected.is_ok())),
                    _ => Ok("verdicts agree".into()),
                },
            }
        }
        Some("prim") => {
            let b = unhex(case["buf"].as_str().unwrap_or(""));
            let o = case["offset"].as_u64().unwrap_or(0) as usize;
            match prim_case(&b, o) {
                Ok(c) => Ok(format!("primitives fine ({})", c)),
                Err((_, what)) => Err(what),
            }
        }
        _ => Err("unknown case kind".into()),
    }
}
