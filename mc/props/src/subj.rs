//! Thin wrappers around the subject (dnssector) used by several properties.
use dnssector::*;

pub fn parse(bytes: &[u8]) -> Result<ParsedPacket, String> {
    match DNSSector::new(bytes.to_vec()) {
        Ok(ds) => ds.parse().map_err(|e| e.to_string()),
        Err(e) => Err(e.to_string()),
    }
}

thread_local! {
    static ARMED: std::cell::Cell<bool> = const { std::cell::Cell::new(false) };
}

pub fn arm_steps(len: usize) {
    arm_ceiling(step_ceiling(len));
}

/// a specific ceiling chosen by a check (the default one of `caught` then stays out of the way)
pub fn arm_ceiling(c: u64) {
    ARMED.with(|a| a.set(true));
    verif_hooks::reset();
    verif_hooks::set_ceiling(c);
}

pub fn disarm_steps() {
    ARMED.with(|a| a.set(false));
    verif_hooks::set_ceiling(u64::MAX);
}

/// Every call of the subject made through `engine::caught` runs under a step ceiling: the one its check armed,
/// or this default. A loop that passes a hook point and does not end (only a changed library has one) then
/// ends as a panic the check reports, not as a worker that has to be killed.
pub const DEFAULT_CEILING: u64 = 200_000_000;

pub fn default_ceiling_on() -> bool {
    if ARMED.with(|a| a.get()) {
        return false;
    }
    verif_hooks::reset();
    verif_hooks::set_ceiling(DEFAULT_CEILING);
    true
}

pub fn default_ceiling_off() {
    verif_hooks::set_ceiling(u64::MAX);
}

/// absolute bound used as a non-termination detector: 64 steps per byte + 4096
pub fn step_ceiling(len: usize) -> u64 {
    64 * len as u64 + 4096
}

use refmodel::msg::{Rdata, Rec};
use refmodel::wire::{Sec, T_A, T_AAAA};
use std::net::IpAddr;

pub fn section_of(s: Sec) -> Section {
    match s {
        Sec::Question => Section::Question,
        Sec::Answer => Section::Answer,
        Sec::Authority => Section::NameServers,
        Sec::Additional => Section::Additional,
    }
}

/// Compares the accessors that exist on every typed cursor with the reference record.
pub fn check_typed<T: DNSIterable + TypedIterable>(it: &T, owner: &[u8], rtype: u16, class: u16, sec: Sec, start: usize, end: usize) -> Result<(), String> {
    if it.offset() != Some(start) {
        return Err(format!("offset() = {:?}, reference record starts at {}", it.offset(), start));
    }
    if it.offset_next() != end {
        return Err(format!("offset_next() = {}, reference record ends at {}", it.offset_next(), end));
    }
    let name = it.name();
    let exp = refmodel::msg::dotted_lower(owner);
    if name != exp {
        return Err(format!("name() = {:?}, expected {:?}", String::from_utf8_lossy(&name), String::from_utf8_lossy(&exp)));
    }
    let mut raw = vec![0xEEu8; 3];
    let n = it.copy_raw_name(&mut raw);
    if raw[..3] != [0xEE; 3] || &raw[3..] != owner || n != owner.len() {
        return Err(format!("copy_raw_name() appended {:?} (returned {}), expected {:?}", &raw[3..], n, owner));
    }
    if it.rr_type() != rtype {
        return Err(format!("rr_type() = {}, expected {}", it.rr_type(), rtype));
    }
    if it.rr_class() != class {
        return Err(format!("rr_class() = {}, expected {}", it.rr_class(), class));
    }
    match it.current_section() {
        Ok(s) if s == section_of(sec) => {}
        other => return Err(format!("current_section() = {:?}, expected {:?}", other.map_err(|e| e.to_string()), sec)),
    }
    Ok(())
}

/// Compares the rdata accessors with the reference record; `raw_rdata` is the record's data as on the wire.
pub fn check_rdata<T: DNSIterable + TypedIterable + RdataIterable>(it: &T, rec: &Rec, raw_rdata: &[u8]) -> Result<(), String> {
    if it.rr_ttl() != rec.ttl {
        return Err(format!("rr_ttl() = {}, expected {}", it.rr_ttl(), rec.ttl));
    }
    if it.rr_rdlen() != raw_rdata.len() {
        return Err(format!("rr_rdlen() = {}, expected {}", it.rr_rdlen(), raw_rdata.len()));
    }
    let ip = it.rr_ip();
    match (rec.rtype, &rec.rdata) {
        (T_A, Rdata::Opaque(b)) => match ip {
            Ok(IpAddr::V4(a)) if a.octets()[..] == b[..] => {}
            other => return Err(format!("rr_ip() = {:?}, expected {:?}", other.map_err(|e| e.to_string()), b)),
        },
        (T_AAAA, Rdata::Opaque(b)) => match ip {
            Ok(IpAddr::V6(a)) if a.octets()[..] == b[..] => {}
            other => return Err(format!("rr_ip() = {:?}, expected {:?}", other.map_err(|e| e.to_string()), b)),
        },
        _ => {
            if ip.is_ok() {
                return Err("rr_ip() succeeded on a record that is neither A nor AAAA".into());
            }
        }
    }
    match it.rr_rd() {
        Ok(RawRRData::IpAddr(a)) => {
            let oct: Vec<u8> = match a {
                IpAddr::V4(a) => a.octets().to_vec(),
                IpAddr::V6(a) => a.octets().to_vec(),
            };
            if !(rec.rtype == T_A || rec.rtype == T_AAAA) || oct != raw_rdata {
                return Err(format!("rr_rd() = address {:?}, wire data {:?}", oct, raw_rdata));
            }
        }
        Ok(RawRRData::Data(d)) => {
            if rec.rtype == T_A || rec.rtype == T_AAAA || d != raw_rdata {
                return Err(format!("rr_rd() = {:?}, wire data {:?}", d, raw_rdata));
            }
        }
        Err(e) => return Err(format!("rr_rd() failed: {}", e)),
    }
    Ok(())
}
