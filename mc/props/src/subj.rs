//! Thin wrappers around the subject (dnssector) used by several properties.
use dnssector::*;

pub fn parse(bytes: &[u8]) -> Result<ParsedPacket, String> {
    match DNSSector::new(bytes.to_vec()) {
        Ok(ds) => ds.parse().map_err(|e| e.to_string()),
        Err(e) => Err(e.to_string()),
    }
}

pub fn arm_steps(len: usize) {
    verif_hooks::reset();
    verif_hooks::set_ceiling(step_ceiling(len));
}

pub fn disarm_steps() {
    verif_hooks::set_ceiling(u64::MAX);
}

/// absolute bound used as a non-termination detector: 64 steps per byte + 4096
pub fn step_ceiling(len: usize) -> u64 {
    64 * len as u64 + 4096
}
