//! C13: record text synthesises to the right wire record; bad text is an error.

use crate::engine::*;
use crate::PropDef;
use dnssector::*;
use refmodel::gen::*;
use refmodel::msg::*;
use refmodel::text::*;
use refmodel::wire::*;
use serde_json::{json, Value};

pub fn def() -> PropDef {
    PropDef {
        id: "C13",
        rule: "grammar-derived valid texts (9 types x boundary values x 3 keyword casings x 5 whitespace layouts) must synthesise to the reference wire form (so must the typed builder called directly with the same field values) and stay parseable when inserted in each section; targeted must-reject texts and every single-token drop/duplication must fail; every single-character damage (delete/replace/insert from a 14-character menu at every position) of a valid subset and every string over a 12-character alphabet up to length n (free and after each 'a 1 IN <TYPE> ' prefix) must not panic and, if accepted, must be one well-formed record; distinct classes = (family, type, outcome)",
        run,
        replay,
        bounds: |t| json!({"valid_records": valid_records(t.pick(0, 1)).len(), "keyword_cases": 3, "ws_layouts": WS_VARIANTS, "free_string_len": t.pick(6, 7), "alphabet": String::from_utf8_lossy(ALPHA).to_string(), "damage_chars": String::from_utf8_lossy(DAMAGE).to_string()}),
        assumptions: &["texts outside the must-accept and must-reject classes are only held to 'no panic, and anything returned is a well-formed record'"],
        budget_s: |t| t.pick(50, 600),
        exhaustive: true,
        nshards: 16,
        post: |rep, _| {
            let mut v = vec![];
            for need in ["valid:A", "valid:AAAA", "valid:NS", "valid:CNAME", "valid:PTR", "valid:TXT", "valid:MX", "valid:SOA", "valid:DS", "reject:", "free:ok", "free:err", "damage:ok", "damage:err"] {
                if !rep.classes.keys().any(|k| k.contains(need)) {
                    v.push(format!("no explored case of class {}", need));
                }
            }
            v
        },
    }
}

const ALPHA: &[u8] = b" .019a:\"\\(Z-";
const DAMAGE: &[u8] = b" \t.0a:\"\\()-_\x00\xff";

fn from_string(text: &str) -> Result<Result<Vec<u8>, String>, String> {
    caught(|| r#gen::RR::from_string(text).map(|rr| rr.packet).map_err(|e| e.to_string()))
}

fn host_packet(rec: &[u8], sec: usize) -> Vec<u8> {
    let mut p = vec![0x12, 0x34, 0x81, 0x80, 0, 1, 0, 0, 0, 0, 0, 0];
    p[7 + 2 * sec] = 1;
    p.extend_from_slice(&[1, b'q', 0, 0, 1, 0, 1]);
    p.extend_from_slice(rec);
    p
}

/// "anything it does return is a well-formed record"
fn well_formed_record(rec: &[u8]) -> Result<(), String> {
    let p = host_packet(rec, 0);
    wf(&p).map_err(|c| format!("as the only answer of a response it violates clause {:?}", c))?;
    let d = decode(&p).map_err(|e| format!("{:?}", e))?;
    if !d.pointer_free {
        return Err("contains a compression pointer".into());
    }
    Ok(())
}

#[derive(Debug)]
enum Case {
    Valid(usize, usize, usize), // record index, keyword case, whitespace layout
    Text(String, &'static str), // arbitrary text, family
}

fn check_valid(tr: &TextRec, kw: usize, ws: usize, deep: bool) -> Result<String, (String, String)> {
    let text = render(&tr.tokens(kw), ws);
    let rec = tr.to_rec();
    let want = encode_rec_plain(&rec);
    let tn = tr.type_name();
    match from_string(&text) {
        Err(p) => return Err((format!("from_string:panic:{}", panic_site(&p)), format!("RR::from_string panicked on {:?}: {}", short(&text), p))),
        Ok(Err(e)) => return Err((format!("valid_rejected:{}", tn), format!("valid {} text rejected ({}): {:?}", tn, e, short(&text)))),
        Ok(Ok(got)) => {
            if got != want {
                return Err((format!("wrong_wire:{}", tn), format!("{:?} synthesised to {} expected {}", short(&text), shex(&got), shex(&want))));
            }
        }
    }
    if deep {
        // the typed builders the grammar feeds, called directly with the same field values
        let h = r#gen::RRHeader { name: tr.owner.clone().into_bytes(), ttl: tr.ttl, class: Class::IN, rr_type: Type::from_string(tn).map_err(|e| ("builder:type_name".to_string(), e.to_string()))? };
        let built = caught(|| {
            use refmodel::text::Kind;
            match &tr.kind {
                Kind::A(ip) => r#gen::A::build(h.clone(), std::net::Ipv4Addr::from(*ip)),
                Kind::Aaaa(_, ip) => r#gen::AAAA::build(h.clone(), std::net::Ipv6Addr::from(*ip)),
                Kind::Ns(n) => r#gen::NS::build(h.clone(), n.clone().into_bytes()),
                Kind::Cname(n) => r#gen::CNAME::build(h.clone(), n.clone().into_bytes()),
                Kind::Ptr(n) => r#gen::PTR::build(h.clone(), n.clone().into_bytes()),
                Kind::Txt(raw, _) => r#gen::TXT::build(h.clone(), raw.clone()),
                Kind::Mx(p, n) => r#gen::MX::build(h.clone(), *p, n.clone().into_bytes()),
                Kind::Soa(a, b, n) => r#gen::SOA::build(h.clone(), a.clone().into_bytes(), b.clone().into_bytes(), n[0], n[1], n[2], n[3], n[4]),
                Kind::Ds(k, a, d, hexs) => r#gen::DS::build(h.clone(), *k, *a, *d, refmodel::text::hex_bytes(hexs)),
            }
            .map(|rr| (rr.packet.clone(), rr.rdata().to_vec()))
            .map_err(|e| e.to_string())
        });
        match built {
            Err(p) => return Err((format!("builder:panic:{}", panic_site(&p)), format!("the {} builder panicked: {}", tn, p))),
            Ok(Err(e)) => return Err((format!("builder_failed:{}", tn), format!("the {} builder refused the fields of valid text {:?}: {}", tn, short(&text), e))),
            Ok(Ok((pk, rd))) => {
                if pk != want || rd[..] != want[want.len() - rd.len()..] || rd.len() != be16(&want, rec.owner.len() + 8) as usize {
                    return Err((format!("builder_wrong_wire:{}", tn), format!("the {} builder returned {} (data {} bytes), expected {}", tn, shex(&pk), rd.len(), shex(&want))));
                }
            }
        }
        let hosts: Vec<Vec<u8>> = {
            let mut m = base_msg(&nm("b.a"), T_A, true);
            m.an.push(a_rec(&nm("b.a"), 1, [1, 1, 1, 1]));
            m.ar.push(opt_variants()[1].clone());
            // no authority; additional records compressed against each other
            let mut m2 = base_msg(&nm("b.a"), T_A, true);
            m2.an.push(a_rec(&nm("b.a"), 1, [1, 1, 1, 1]));
            m2.ar.push(a_rec(&nm("ns1.glue.net"), 1, [2, 2, 2, 2]));
            m2.ar.push(name_rec(&nm("ns2.glue.net"), T_CNAME, 1, &nm("ns1.glue.net")));
            // no answers, authority and additional both present
            let mut m3 = base_msg(&nm("b.a"), T_A, true);
            m3.ns.push(name_rec(&nm("a"), T_NS, 1, &nm("ns.other.org")));
            m3.ar.push(a_rec(&nm("ns.other.org"), 1, [3, 3, 3, 3]));
            vec![encode(&m, Strategy::Max), encode(&m2, Strategy::Max), encode(&m3, Strategy::Max)]
        };
        for base in &hosts {
        for (sec, section) in [(Sec::Answer, Section::Answer), (Sec::Authority, Section::NameServers), (Sec::Additional, Section::Additional)] {
            let mut pp = crate::subj::parse(base).unwrap();
            let before = decode(base).unwrap().msg;
            let r = caught(|| pp.insert_rr_from_string(section, &text).map_err(|e| e.to_string()));
            let too_large = refmodel::msg::encode(&before, Strategy::Plain).len() + want.len() > 8192;
            match r {
                Err(p) => return Err((format!("insert:panic:{}", panic_site(&p)), format!("insert_rr_from_string panicked: {}", p))),
                Ok(Err(e)) => {
                    if !too_large {
                        return Err((format!("insert_failed:{}", tn), format!("inserting valid {} text failed: {}", tn, e)));
                    }
                }
                Ok(Ok(())) => {
                    let bytes = pp.packet().to_vec();
                    if let Err(c) = wf(&bytes) {
                        return Err((format!("insert_ill_formed:{}", tn), format!("after insertion into {:?} the packet violates clause {:?}", sec, c)));
                    }
                    if crate::subj::parse(&bytes).is_err() {
                        return Err((format!("insert_rejected:{}", tn), "after insertion the parser rejects the packet".into()));
                    }
                    let after = decode(&bytes).unwrap().msg;
                    let mut exp = before.clone();
                    exp.sec_mut(sec).push(rec.clone());
                    if after != exp {
                        return Err((format!("insert_wrong:{}", tn), refmodel::ops::diff(&exp, &after)));
                    }
                }
            }
        }
        }
    }
    Ok(format!("valid:{} ", tn))
}

fn check_reject(text: &str, why: &str) -> Result<String, (String, String)> {
    match from_string(text) {
        Err(p) => Err((format!("from_string:panic:{}", panic_site(&p)), format!("RR::from_string panicked on {:?}: {}", short(text), p))),
        Ok(Ok(b)) => Err((format!("accepted_bad_text:{}", why), format!("text that must be rejected ({}) was accepted: {:?} -> {}", why, short(text), shex(&b)))),
        Ok(Err(_)) => Ok(format!("reject:{}", why)),
    }
}

fn check_any(text: &[u8], fam: &str) -> Result<String, (String, String)> {
    let s = match std::str::from_utf8(text) {
        Ok(s) => s,
        Err(_) => return Ok(format!("{}:not_utf8", fam)), // &str API: not expressible
    };
    match from_string(s) {
        Err(p) => Err((format!("from_string:panic:{}", panic_site(&p)), format!("RR::from_string panicked on {:?}: {}", short(s), p))),
        Ok(Err(_)) => Ok(format!("{}:err", fam)),
        Ok(Ok(b)) => match well_formed_record(&b) {
            Ok(()) => Ok(format!("{}:ok", fam)),
            Err(e) => Err(("returned_ill_formed_record".into(), format!("{:?} returned a record that is not well-formed: {} ({})", short(s), e, shex(&b)))),
        },
    }
}

fn short(s: &str) -> String {
    if s.len() > 160 {
        format!("{}...({} chars)", &s[..120], s.len())
    } else {
        s.to_string()
    }
}

fn shex(b: &[u8]) -> String {
    if b.len() > 120 {
        format!("{}..({} bytes)", hex(&b[..100]), b.len())
    } else {
        hex(b)
    }
}

fn record(ctx: &mut Ctx, rep: &mut Report, case: &Case, r: Result<String, (String, String)>, recs: &[TextRec]) {
    rep.transitions += 1;
    rep.states += 1;
    let lvl = ctx.tier.pick(0, 1);
    let case_json = || match case {
        Case::Valid(i, kw, ws) => json!({"kind": "valid", "level": lvl, "index": i, "kw": kw, "ws": ws, "text": short(&render(&recs[*i].tokens(*kw), *ws))}),
        Case::Text(t, fam) => json!({"kind": "text", "family": fam, "text_hex": hex(t.as_bytes())}),
    };
    match r {
        Ok(c) => {
            rep.class(&c);
            if rep.samples.len() < MAX_SAMPLES && rep.transitions % 7001 == 0 {
                rep.sample(case_json);
            }
        }
        Err((sig, what)) => rep.violation(&sig, what, case_json()),
    }
}

fn run(ctx: &mut Ctx, rep: &mut Report) {
    let recs = valid_records(ctx.tier.pick(0, 1));
    let mut gi = 0u64;
    // 1. valid texts
    for (i, tr) in recs.iter().enumerate() {
        for kw in 0..3 {
            for ws in 0..WS_VARIANTS {
                gi += 1;
                if !ctx.mine(gi) {
                    continue;
                }
                if ctx.journaling() {
                    let lvl = ctx.tier.pick(0, 1);
                    ctx.journal(|| json!({"kind": "valid", "level": lvl, "index": i, "kw": kw, "ws": ws}));
                }
                let r = check_valid(tr, kw, ws, kw == 0 && ws == 0);
                record(ctx, rep, &Case::Valid(i, kw, ws), r, &recs);
            }
        }
    }
    // 2. must-reject: targeted, and token drop / duplication of every valid text
    for (t, why) in must_reject_targeted() {
        gi += 1;
        if !ctx.mine(gi) {
            continue;
        }
        let r = check_reject(&t, why);
        record(ctx, rep, &Case::Text(t.clone(), "reject"), r, &recs);
    }
    for tr in recs.iter() {
        let toks = tr.tokens(0);
        if toks.iter().map(|t| t.len()).sum::<usize>() > 600 {
            continue;
        }
        for k in 0..toks.len() {
            gi += 1;
            if !ctx.mine(gi) {
                continue;
            }
            let mut dropped = toks.clone();
            dropped.remove(k);
            let t = render(&dropped, 0);
            let r = check_reject(&t, "token dropped");
            record(ctx, rep, &Case::Text(t, "reject"), r, &recs);
            let mut dup = toks.clone();
            dup.insert(k, toks[k].clone());
            // duplicating a closing/opening parenthesis or a number inside SOA changes the count: still surplus
            let t = render(&dup, 0);
            let r = check_reject(&t, "token duplicated");
            record(ctx, rep, &Case::Text(t, "reject"), r, &recs);
        }
    }
    // 2b. texts that pass the grammar but must fail when the record is built (owner or target name too
    //     long once encoded, text too long), each followed on the same thread by valid texts of every type:
    //     a failed synthesis must not influence the next one
    {
        let long = format!("{}.toolong", name_with_wire_len(253));
        let fails: Vec<String> = vec![
            format!("{} 1 IN A 1.2.3.4", long),
            format!("{} 1 IN TXT \"stale-data\"", long),
            format!("x 1 IN MX 5 {}", long),
            format!("x 1 IN SOA {} a ( 1 2 3 4 5 )", long),
            format!("x 1 IN NS {}", long),
            format!("x 1 IN TXT \"{}\"", label_of(3826, 'z')),
            format!("{} 1 IN DS 1 2 3 abcd", long),
        ];
        let firsts: Vec<usize> = {
            let mut seen = std::collections::BTreeSet::new();
            recs.iter().enumerate().filter(|(_, r)| seen.insert(r.type_name())).map(|(i, _)| i).collect()
        };
        for (k, ft) in fails.iter().enumerate() {
            gi += 1;
            if !ctx.mine(gi) {
                continue;
            }
            for &i in &firsts {
                let r = check_reject(ft, "name or text too long for a record");
                record(ctx, rep, &Case::Text(ft.clone(), "reject"), r, &recs);
                let r = check_valid(&recs[i], 0, 0, false).map(|c| format!("{}after_failed_build", c)).map_err(|(sg, w)| (format!("after_failed_build:{}", sg), format!("after the rejected text #{}: {}", k, w)));
                if let Err((sg, w)) = r {
                    rep.transitions += 1;
                    rep.violation(&sg, w, json!({"kind": "after_fail", "fail_text": ft, "level": ctx.tier.pick(0, 1), "index": i}));
                } else {
                    record(ctx, rep, &Case::Valid(i, 0, 0), r, &recs);
                }
            }
        }
    }
    // 2c. the same record synthesised for owners that differ only in letter case, back to back on one thread
    {
        let firsts: Vec<usize> = {
            let mut seen = std::collections::BTreeSet::new();
            recs.iter().enumerate().filter(|(_, r)| seen.insert(r.type_name())).map(|(i, _)| i).collect()
        };
        for &i in &firsts {
            gi += 1;
            if !ctx.mine(gi) {
                continue;
            }
            for owner in ["twin.example", "TWIN.EXAMPLE", "Twin.Example", "twin.example", "twin.example."] {
                let mut tr = recs[i].clone();
                tr.owner = owner.to_string();
                let r = check_valid(&tr, 0, 0, false).map(|c| format!("{}case_twin", c)).map_err(|(sg, w)| (format!("case_twin_sequence:{}", sg), w));
                match r {
                    Ok(c) => {
                        rep.transitions += 1;
                        rep.class(&c);
                    }
                    Err((sg, w)) => rep.violation(&sg, w, json!({"kind": "twins", "level": ctx.tier.pick(0, 1), "index": i})),
                }
            }
        }
    }
    // 3. single-character damage of short valid texts
    for (i, tr) in recs.iter().enumerate() {
        let text = render(&tr.tokens(0), 0);
        if text.len() > 90 || i % ctx.tier.pick(7, 2) != 0 {
            continue;
        }
        let b = text.as_bytes();
        for pos in 0..=b.len() {
            gi += 1;
            if !ctx.mine(gi) {
                continue;
            }
            let mut variants: Vec<Vec<u8>> = vec![];
            if pos < b.len() {
                let mut d = b.to_vec();
                d.remove(pos);
                variants.push(d);
                for &c in DAMAGE {
                    let mut d = b.to_vec();
                    d[pos] = c;
                    variants.push(d);
                }
            }
            for &c in DAMAGE {
                let mut d = b.to_vec();
                d.insert(pos, c);
                variants.push(d);
            }
            for v in variants {
                if ctx.journaling() {
                    ctx.journal(|| json!({"kind": "text", "family": "damage", "text_hex": hex(&v)}));
                }
                let r = check_any(&v, "damage");
                let t = String::from_utf8_lossy(&v).to_string();
                if let Err(_) = &r {
                    if std::str::from_utf8(&v).is_err() {
                        continue;
                    }
                }
                record(ctx, rep, &Case::Text(t, "damage"), r, &recs);
            }
        }
    }
    // 4. every string over the alphabet, free and after each type prefix
    let n = ctx.tier.pick(6, 7);
    let tails = Tails { alphabet: ALPHA, max_len: n };
    let total = tails.count();
    let mut prefixes: Vec<String> = vec!["".into()];
    for t in ["A", "AAAA", "NS", "CNAME", "PTR", "TXT", "MX", "SOA", "DS"] {
        prefixes.push(format!("a 1 IN {} ", t));
    }
    prefixes.push("a 1 IN SOA a b ( 1 2 3 ".into());
    prefixes.push("a 1 IN DS 1 2 3 ".into());
    prefixes.push("a 1 IN MX 5 ".into());
    let mut tail = vec![];
    for p in &prefixes {
        for i in 0..total {
            gi += 1;
            if !ctx.mine(gi) {
                continue;
            }
            tails.get(i, &mut tail);
            let mut t = p.as_bytes().to_vec();
            t.extend_from_slice(&tail);
            if ctx.journaling() {
                ctx.journal(|| json!({"kind": "text", "family": "free", "text_hex": hex(&t)}));
            }
            let r = check_any(&t, "free");
            rep.transitions += 1;
            rep.states += 1;
            match r {
                Ok(c) => rep.class(&format!("{} {}", c, p.split(' ').nth(3).unwrap_or("-"))),
                Err((sig, what)) => rep.violation(&sig, what, json!({"kind": "text", "family": "free", "text_hex": hex(&t)})),
            }
        }
    }
}

fn replay(case: &Value) -> Result<String, String> {
    match case["kind"].as_str() {
        Some("valid") => {
            let recs = valid_records(case["level"].as_u64().unwrap_or(0) as usize);
            let i = case["index"].as_u64().unwrap_or(0) as usize;
            let (kw, ws) = (case["kw"].as_u64().unwrap_or(0) as usize, case["ws"].as_u64().unwrap_or(0) as usize);
            println!("text: {:?}", short(&render(&recs[i].tokens(kw), ws)));
            check_valid(&recs[i], kw, ws, true).map_err(|(s, w)| format!("[{}] {}", s, w))
        }
        Some("twins") => {
            let recs = valid_records(case["level"].as_u64().unwrap_or(0) as usize);
            let i = case["index"].as_u64().unwrap_or(0) as usize;
            for owner in ["twin.example", "TWIN.EXAMPLE", "Twin.Example", "twin.example", "twin.example."] {
                let mut tr = recs[i].clone();
                tr.owner = owner.to_string();
                println!("text: {:?}", short(&render(&tr.tokens(0), 0)));
                check_valid(&tr, 0, 0, false).map_err(|(s, w)| format!("[case_twin_sequence:{}] {}", s, w))?;
            }
            Ok("every twin synthesised to its own spelling".into())
        }
        Some("after_fail") => {
            let recs = valid_records(case["level"].as_u64().unwrap_or(0) as usize);
            let i = case["index"].as_u64().unwrap_or(0) as usize;
            let ft = case["fail_text"].as_str().unwrap_or("");
            println!("first (must be rejected): {:?}", short(ft));
            println!("then: {:?}", short(&render(&recs[i].tokens(0), 0)));
            let _ = check_reject(ft, "too long");
            check_valid(&recs[i], 0, 0, false).map_err(|(s, w)| format!("[after_failed_build:{}] {}", s, w))
        }
        _ => {
            let t = unhex(case["text_hex"].as_str().unwrap_or(""));
            println!("text: {:?}", String::from_utf8_lossy(&t));
            let fam = case["family"].as_str().unwrap_or("free");
            if fam == "reject" {
                let s = String::from_utf8_lossy(&t).to_string();
                check_reject(&s, "must-reject class").map_err(|(s, w)| format!("[{}] {}", s, w))
            } else {
                check_any(&t, "free").map_err(|(s, w)| format!("[{}] {}", s, w))
            }
        }
    }
}
