//! C06: compression keeps the message, stays valid and never grows the packet.

use crate::engine::*;
use crate::PropDef;
use dnssector::*;
use refmodel::gen::*;
use refmodel::msg::*;
use refmodel::ops::*;
use refmodel::wire::*;
use serde_json::{json, Value};

pub fn def() -> PropDef {
    PropDef {
        id: "C06",
        rule: "every pointer-free L3 message (8 names incl. case twins x record menu x <=k records x OPT at every position), plus L5 families: suffix nesting depth 1..20, 31/32/33/40 distinct suffixes, suffix length 126/127/128, first name at output offsets around 16383, mixed-case duplicates; distinct classes = (family, pointers emitted bucket, OPT position, record-type set)",
        run,
        replay,
        bounds: |t| { let (n, l, k) = params(t); json!({"names": n, "record_menu_level": l, "max_records": k, "nesting": "1..20", "distinct_suffixes": [31,32,33,40], "suffix_len": [126,127,128], "offsets": [16370,16383,16384,16400]}) },
        assumptions: &["which suffix is chosen, or whether one is compressed at all, is not part of the property and is not compared"],
        budget_s: |t| t.pick(50, 900),
        exhaustive: true,
        nshards: 16,
        post: |rep, _| {
            let mut v = vec![];
            for need in ["ptrs=0", "ptrs=1", "ptrs=3+", "opt=middle", "opt=last", "fam=nest", "fam=many", "fam=long", "fam=far"] {
                if !rep.classes.keys().any(|k| k.contains(need)) {
                    v.push(format!("no explored packet with {}", need));
                }
            }
            v
        },
    }
}

fn params(t: Tier) -> (usize, usize, usize) {
    t.pick((6, 1, 2), (6, 1, 3))
}

fn count_pointers(p: &[u8], d: &Decoded) -> usize {
    // number of names whose encoding in p contains a pointer (cheap proxy: re-walk each name start)
    let mut n = 0;
    let mut starts: Vec<usize> = vec![];
    if let Some(q) = &d.qspan {
        starts.push(q.start);
    }
    for (sp, r) in d.spans.iter().zip(d.msg.all_recs()) {
        starts.push(sp.start);
        match &r.rdata {
            Rdata::Name(_) => starts.push(sp.name_end + 10),
            Rdata::Mx(..) => starts.push(sp.name_end + 12),
            Rdata::Soa(..) => {
                starts.push(sp.name_end + 10);
                if let Ok((_, e, _)) = expand_lenient(p, sp.name_end + 10) {
                    starts.push(e);
                }
            }
            _ => {}
        }
    }
    for s in starts {
        if let Ok((_, _, h)) = expand_lenient(p, s) {
            if h > 0 {
                n += 1;
            }
        }
    }
    n
}

pub fn check_packet(x: &[u8]) -> Result<String, (String, String)> {
    let d = decode(x).expect("undecodable generated packet");
    assert!(d.pointer_free, "generator bug: C06 input contains pointers");
    if crate::subj::parse(x).is_err() {
        return Ok("parser_rejected(C02)".into());
    }
    let r = caught(|| Compress::compress(x).map_err(|e| e.to_string()));
    let c = match r {
        Err(p) => return Err((format!("compress:panic:{}", panic_site(&p)), format!("compress panicked: {}", p))),
        Ok(Err(e)) => return Err(("compress:error".into(), format!("compress failed on an accepted pointer-free packet: {}", e))),
        Ok(Ok(c)) => c,
    };
    if c.len() > x.len() {
        return Err(("compress:grew".into(), format!("output {} bytes > input {} bytes", c.len(), x.len())));
    }
    if c.len() < 12 || c[..12] != x[..12] {
        return Err(("compress:header".into(), "header changed".into()));
    }
    let dc = match decode(&c) {
        Ok(dc) => dc,
        Err(e) => return Err(("compress:output_undecodable".into(), format!("{:?}: {}", e, hex(&c)))),
    };
    // message first (it names the cause more precisely than "rejected")
    if dc.msg.ar.iter().filter(|r| r.rtype == T_OPT).count() != d.msg.ar.iter().filter(|r| r.rtype == T_OPT).count() || dc.end != c.len() {
        return Err(("compress:opt_lost".into(), format!("the OPT record is not carried over (or the record counts no longer match the bytes): input AR {} records, output decodes {} of them in {} of {} bytes", d.msg.ar.len(), dc.msg.ar.len(), dc.end, c.len())));
    }
    if !equiv_mod_case_and_opt_position(&d.msg, &dc.msg) {
        let sig = if dc.max_chain > 0 && d.msg.folded() != dc.msg.folded() { "compress:wrong_pointer_target" } else { "compress:message_changed" };
        return Err((sig.into(), format!("message changed: {}", diff(&d.msg.folded(), &dc.msg.folded()))));
    }
    if dc.msg.q[0].name != d.msg.q[0].name {
        return Err(("compress:question_case".into(), "question name is not byte-identical".into()));
    }
    if let Err(cl) = wf(&c) {
        let sig = if dc.max_chain > 16 { "compress:chain_too_long".to_string() } else { format!("compress:output_ill_formed:{:?}", cl) };
        return Err((sig, format!("output violates clause {:?} (longest pointer chain {}): {}", cl, dc.max_chain, if c.len() < 300 { hex(&c) } else { format!("{} bytes", c.len()) })));
    }
    if crate::subj::parse(&c).is_err() {
        return Err(("compress:output_rejected".into(), "output is rejected by the parser".into()));
    }
    match caught(|| Compress::uncompress(&c).map_err(|e| e.to_string())) {
        Ok(Ok(u)) => {
            let du = decode(&u).map_err(|e| ("compress:roundtrip".to_string(), format!("{:?}", e)))?;
            if !equiv_mod_case_and_opt_position(&d.msg, &du.msg) {
                return Err(("compress:roundtrip".into(), format!("uncompress(compress(x)) differs: {}", diff(&d.msg.folded(), &du.msg.folded()))));
            }
        }
        other => return Err(("compress:roundtrip".into(), format!("uncompress(compress(x)) failed: {:?}", other.map(|r| r.map(|_| ()))))),
    }
    let ptrs = count_pointers(&c, &dc);
    let optpos = match d.msg.ar.iter().position(|r| r.rtype == T_OPT) {
        None => "none",
        Some(i) if i + 1 == d.msg.ar.len() => "last",
        Some(0) => "first",
        _ => "middle",
    };
    let mut types: Vec<u16> = d.msg.all_recs().map(|r| type_bucket(r.rtype)).collect();
    types.sort();
    types.dedup();
    Ok(format!("ptrs={} chain={} opt={} types={:?}", if ptrs >= 3 { "3+".to_string() } else { ptrs.to_string() }, dc.max_chain.min(17), optpos, types))
}

fn one(ctx: &mut Ctx, rep: &mut Report, x: &[u8], fam: &str) {
    if ctx.journaling() {
        ctx.journal(|| json!({"input": hex(x)}));
    }
    rep.transitions += 1;
    rep.states += 1;
    match check_packet(x) {
        Ok(c) => {
            rep.class(&format!("fam={} {}", fam, c));
            if rep.samples.len() < MAX_SAMPLES && x.len() > 50 && rep.transitions % 4001 == 0 {
                rep.sample(|| json!({"input": hex(x), "message": describe(&decode(x).unwrap().msg), "class": c}));
            }
        }
        Err((sig, what)) => rep.violation(&sig, what, json!({"input": hex(x), "family": fam})),
    }
}

fn label(i: usize) -> Vec<u8> {
    format!("l{}", i).into_bytes()
}

/// L5 families for the compressor, all pointer-free
pub fn l5_packets() -> Vec<(&'static str, Vec<u8>)> {
    let mut v: Vec<(&'static str, Vec<u8>)> = vec![];
    // nesting: record i is owned by l_i.l_{i-1}....l_0 ; depth 1..20
    for depth in 1..=20usize {
        for with_opt in [false, true] {
            let mut m = base_msg(&nm("l0"), T_A, true);
            let mut cur: Vec<Vec<u8>> = vec![label(0)];
            for i in 1..=depth {
                cur.insert(0, label(i));
                let refs: Vec<&[u8]> = cur.iter().map(|l| &l[..]).collect();
                let n = name_from_labels(&refs);
                m.an.push(a_rec(&n, i as u32, [1, 1, 1, i as u8]));
            }
            if with_opt {
                m.ar.push(opt_variants()[1].clone());
            }
            v.push(("nest", encode(&m, Strategy::Plain)));
        }
    }
    // the same nesting with ONE-byte labels (a suffix of n labels is 2n+1 bytes), the deepest name used twice
    for depth in 1..=20usize {
        let mut m = base_msg(&nm("a"), T_A, true);
        let mut cur: Vec<Vec<u8>> = vec![b"a".to_vec()];
        let mut deepest = nm("a");
        for i in 1..=depth {
            cur.insert(0, vec![b'b' + (i % 20) as u8]);
            let refs: Vec<&[u8]> = cur.iter().map(|l| &l[..]).collect();
            deepest = name_from_labels(&refs);
            m.an.push(a_rec(&deepest, i as u32, [1, 1, 2, i as u8]));
        }
        m.an.push(name_rec(&deepest, T_NS, 99, &deepest));
        m.ar.push(a_rec(&deepest, 98, [9, 9, 9, 9]));
        v.push(("nest1", encode(&m, Strategy::Plain)));
    }
    // a name that lands exactly at offsets 250..262 and 506..518 of the output and is used again later (a
    // pointer whose low byte is 00 stands for offsets 256 and 512)
    for pad in 0..26usize {
        for base in [220usize, 476] {
            let mut m = base_msg(&nm("q.a"), T_A, true);
            m.an.push(Rec { owner: nm("q.a"), rtype: 99, class: 1, ttl: 1, rdata: Rdata::Opaque(vec![0x55; base + pad]) });
            m.an.push(a_rec(&nm("first.late.org"), 2, [1, 2, 3, 4]));
            m.an.push(name_rec(&nm("x.q.a"), T_NS, 3, &nm("late.org")));
            m.an.push(name_rec(&nm("y.q.a"), T_CNAME, 4, &nm("first.late.org")));
            m.ns.push(soa_rec(&nm("late.org"), 5, &nm("first.late.org"), &nm("org")));
            v.push(("at256", encode(&m, Strategy::Plain)));
        }
    }
    // many distinct suffixes, then re-use of early / late ones
    for count in [31usize, 32, 33, 40] {
        let mut m = base_msg(&nm("q.zone"), T_A, true);
        for i in 0..count {
            m.an.push(a_rec(&name_from_labels(&[&label(i), b"d"]), 1, [2, 2, 2, i as u8]));
        }
        for i in [0usize, 1, 2, count / 2, count - 2, count - 1] {
            m.ns.push(name_rec(&nm("q.zone"), T_NS, 1, &name_from_labels(&[&label(i), b"d"])));
            m.ar.push(mx_rec(&name_from_labels(&[&label(i), b"d"]), 1, 1, &nm("Q.ZONE")));
        }
        v.push(("many", encode(&m, Strategy::Plain)));
    }
    // suffix lengths around the dictionary's limit
    for total in [125usize, 126, 127, 128, 129, 200, 255] {
        let n = name_of_wire_len(total);
        let mut m = base_msg(&n, T_A, true);
        m.an.push(name_rec(&n, T_CNAME, 1, &n));
        let mut longer = vec![1u8, b'p'];
        longer.extend_from_slice(&n);
        if longer.len() <= 255 {
            m.an.push(name_rec(&longer, T_PTR, 1, &n));
        }
        m.ns.push(soa_rec(&n, 1, &n, &n));
        v.push(("long", encode(&m, Strategy::Plain)));
    }
    // names far into the packet: an opaque filler record puts the first interesting name near 16383
    let mut positions: Vec<usize> = (16366usize..=16392).collect();
    positions.extend_from_slice(&[16300, 16340, 16400]);
    for pos in positions {
        let mut m = base_msg(&nm("a"), T_A, true);
        let filler_rdata = pos - (12 + 3 + 4) - (1 + 10);
        m.an.push(Rec { owner: vec![0], rtype: 99, class: 1, ttl: 0, rdata: Rdata::Opaque(vec![0x55; filler_rdata]) });
        m.an.push(name_rec(&nm("far.example"), T_CNAME, 1, &nm("t.far.example")));
        m.an.push(name_rec(&nm("far.example"), T_CNAME, 1, &nm("t.far.example")));
        m.ns.push(name_rec(&nm("x.far.example"), T_NS, 1, &nm("a")));
        // names whose longest known suffix is an INNER suffix of the name that straddles offset 16384
        m.ns.push(name_rec(&nm("other.example"), T_NS, 1, &nm("more.example")));
        m.ar.push(mx_rec(&nm("example"), 1, 1, &nm("t.far.example")));
        v.push(("far", encode(&m, Strategy::Plain)));
    }
    // mixed-case duplicates
    let mut m = base_msg(&nm("WwW.ExAmple.COM"), T_A, true);
    m.an.push(name_rec(&nm("www.example.com"), T_CNAME, 1, &nm("WWW.EXAMPLE.COM")));
    m.an.push(mx_rec(&nm("example.com"), 1, 1, &nm("Mail.Example.Com")));
    m.ns.push(soa_rec(&nm("EXAMPLE.com"), 1, &nm("ns.example.COM"), &nm("Mail.example.com")));
    m.ar.push(a_rec(&nm("mail.EXAMPLE.com"), 1, [1, 2, 3, 4]));
    m.ar.push(opt_variants()[2].clone());
    m.ar.push(a_rec(&nm("ns.example.com"), 1, [1, 2, 3, 5]));
    v.push(("case", encode(&m, Strategy::Plain)));
    // names that differ only in bit 5 of a NON-letter byte ('[' / '{', '@' / '`', '^' / '~', 0xc1 / 0xe1) are
    // different names; true case twins of them are equal
    for (x, y) in [(b'[', b'{'), (b'@', b'`'), (b'^', b'~'), (b']', b'}'), (0xc1u8, 0xe1u8), (b'1', b'Q'), (b'-', b'M')] {
        let n1 = name_from_labels(&[&[b'a', x, b'b'], b"example"]);
        let n2 = name_from_labels(&[&[b'a', y, b'b'], b"example"]);
        let n1u = name_from_labels(&[&[b'A', x, b'B'], b"EXAMPLE"]);
        let mut m = base_msg(&n1, T_A, true);
        m.an.push(name_rec(&n2, T_CNAME, 1, &n1u));
        m.an.push(mx_rec(&n1u, 1, 1, &n2));
        m.ns.push(soa_rec(&n2, 1, &n1, &n2));
        m.ar.push(a_rec(&n1, 1, [1, 2, 3, 4]));
        m.ar.push(a_rec(&n2, 1, [1, 2, 3, 5]));
        v.push(("case", encode(&m, Strategy::Plain)));
    }
    v.push(("sink", kitchen_sink(Strategy::Plain)));
    v
}

fn run(ctx: &mut Ctx, rep: &mut Report) {
    let (nn, level, k) = params(ctx.tier);
    let names: Vec<Name> = std_names()[..nn].to_vec();
    let menu = rec_menu(&names, level);
    let opts = opt_variants();
    let qnames = if k >= 3 { vec![names[5].clone()] } else { vec![names[2].clone(), names[0].clone(), names[5].clone()] };
    let shard = ctx.shard as u64;
    let nsh = ctx.nshards as u64;
    let ctxp: *mut Ctx = ctx;
    let repp: *mut Report = rep;
    messages(&qnames, &menu, &opts, k, &|g| g % nsh == shard, |m| {
        let (ctx, rep) = unsafe { (&mut *ctxp, &mut *repp) };
        if ctx.timed_out() {
            rep.cap("time budget reached inside the L3 universe".into());
            return;
        }
        let x = encode(m, Strategy::Plain);
        one(ctx, rep, &x, "L3");
    });
    all_types_packets(true, |i, p| {
        let (ctx, rep) = unsafe { (&mut *ctxp, &mut *repp) };
        if ctx.mine(i) {
            one(ctx, rep, p, "types");
        }
    });
    accepted_low_level(ctx.tier.pick(0, 1), |i, p| {
        let (ctx, rep) = unsafe { (&mut *ctxp, &mut *repp) };
        if ctx.mine(i) && decode(p).map(|d| d.pointer_free).unwrap_or(false) {
            one(ctx, rep, p, "low");
        }
    });
    for (i, (fam, p)) in l5_packets().iter().enumerate() {
        if ctx.mine(i as u64) {
            one(ctx, rep, p, fam);
        }
    }
}

fn replay(case: &Value) -> Result<String, String> {
    let x = unhex(case["input"].as_str().unwrap_or(""));
    println!("input: {}", if x.len() < 400 { hex(&x) } else { format!("{} bytes", x.len()) });
    if let Ok(d) = decode(&x) {
        if x.len() < 400 {
            println!("message: {}", describe(&d.msg));
        }
    }
    if let Ok(Ok(c)) = caught(|| Compress::compress(&x).map_err(|e| e.to_string())) {
        if c.len() < 400 {
            println!("compress(): {}", hex(&c));
        }
    }
    match check_packet(&x) {
        Ok(c) => Ok(c),
        Err((sig, what)) => Err(format!("[{}] {}", sig, what)),
    }
}
