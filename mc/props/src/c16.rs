//! C16: C error descriptions are private to the calling thread.
//! Real OS threads (the property is about a thread_local!) under the baton scheduler; steps are
//! C-table calls; the library's own yield points around the error store are scheduling points too.

use crate::engine::*;
use crate::sched::*;

struct Explorer {
    bound: usize,
    max_execs: u64,
    execs: u64,
    capped: bool,
}
use crate::PropDef;
use dnssector::*;
use serde_json::{json, Value};
use std::ffi::{CStr, CString};
use std::sync::{Arc, Mutex};

pub fn def() -> PropDef {
    PropDef {
        id: "C16",
        rule: "1 thread x every script of 3..4 steps (thorough 5); 2 threads x scripts of <=2 steps (thorough: 3 steps against <=2) and 3 threads x scripts of <=2 steps over {fail with one of eleven messages through seven table entries (among them two texts of the same kind of error, and two records that parse but cannot be built for different reasons) (raw_name_from_str and rename fail in two ways each; set_raw_name, delete and set_name fail inside an iteration callback), succeed (add_to_answer; in the single-thread scripts also rename, delete and set_raw_name inside a callback, raw_name_from_str), read description through the thread's last CErr*, look again at the description text retrieved earlier}; every interleaving of the steps (step-level points, unbounded) and, with the library's yield points around the error store enabled, every interleaving with at most 2 preemptions; the same with every call handed a stale handle variable, and with all threads working on ONE packet handed from thread to thread; each execution runs on real OS threads under a baton scheduler and is compared with the per-thread expectation; a crowd of N in {1..600} threads failing and exiting while one thread keeps its description; distinct classes = (threads, script shapes, own or shared packet, whether a foreign failure lies between a failure and its read)",
        run,
        replay,
        bounds: |t| json!({"threads": [2, 3], "steps_2_threads": t.pick(2, 3), "steps_3_threads": 2, "preemption_bound_with_library_points": t.pick(2, 3), "max_executions_per_tuple": 20000}),
        assumptions: &["scheduling granularity = table calls plus the hook points inside throw_err; data races below that granularity are out of scope (no instrumented std offline)"],
        budget_s: |t| t.pick(75, 900),
        exhaustive: true,
        nshards: 16,
        post: |rep, _| {
            let mut v = vec![];
            for need in ["crowd of >=100", "stale=1", "threads=1", "threads=2", "threads=3", "foreign_between=1", "libpoints=1", "shared=1 stale=0 foreign_between=1", "stale=1 foreign_between=1"] {
                if !rep.classes.keys().any(|k| k.contains(need)) {
                    v.push(format!("no explored execution with {}", need));
                }
            }
            v
        },
    }
}

#[derive(Clone, Copy, Debug, PartialEq, Eq)]
pub enum Step {
    Fail(u8),
    Succeed,
    /// successful calls through other entries: 0 rename_with_raw_names, 1 delete inside an iteration callback,
    /// 2 raw_name_from_str, 3 set_raw_name inside an iteration callback
    SucceedVia(u8),
    Read,
    /// look again at the description text retrieved earlier (the char pointer the thread still holds),
    /// without any table call: it must have stayed intact
    Peek,
}

fn step_char(s: Step) -> char {
    match s {
        Step::Fail(k) => (b'A' + k) as char,
        Step::Succeed => 's',
        Step::SucceedVia(k) => (b'0' + k) as char,
        Step::Read => 'r',
        Step::Peek => 'p',
    }
}

fn parse_script(s: &str) -> Vec<Step> {
    s.chars()
        .map(|c| match c {
            's' => Step::Succeed,
            'r' => Step::Read,
            'p' => Step::Peek,
            c if c.is_ascii_digit() => Step::SucceedVia(c as u8 - b'0'),
            c => Step::Fail(c as u8 - b'A'),
        })
        .collect()
}

fn base_packet() -> Vec<u8> {
    use refmodel::gen::*;
    use refmodel::msg::*;
    let mut m = base_msg(&nm("b.a"), refmodel::wire::T_A, true);
    m.an.push(a_rec(&nm("b.a"), 1, [1, 2, 3, 4]));
    encode(&m, Strategy::Plain)
}

/// one packet handed to every thread of an execution; the baton serialises all access to it
struct SharedPacket(std::cell::UnsafeCell<ParsedPacket>);
unsafe impl Sync for SharedPacket {}
unsafe impl Send for SharedPacket {}

/// the handle most recently handed out to ANY thread of the execution (stale-handle mode)
static LAST_HANDLE: std::sync::atomic::AtomicPtr<CErr> = std::sync::atomic::AtomicPtr::new(std::ptr::null_mut());

struct ThreadCtx {
    /// every call's handle variable starts out holding the handle most recently handed to any thread (as a
    /// context structure that migrates between worker threads would), instead of NULL: it is an out-parameter,
    /// what it held before the call must not matter
    stale: bool,
    _own: Option<Box<ParsedPacket>>,
    pp: *mut ParsedPacket,
    last_err: *const CErr,
    last_desc: *const libc::c_char,
    last_msg: Option<String>,
}

/// performs one step through the C table; returns an observation string
fn do_step(t: &FnTable, c: &mut ThreadCtx, s: Step) -> Result<String, String> {
    unsafe {
        match s {
            Step::Fail(k) => {
                let mut err: *const CErr = if c.stale { LAST_HANDLE.load(std::sync::atomic::Ordering::SeqCst) } else { std::ptr::null() };
                let handed_in = err;
                let rc = match k {
                    0 => {
                        let txt = CString::new("this is not a record").unwrap();
                        (t.add_to_answer)(&mut *c.pp, &mut err, txt.as_ptr())
                    }
                    1 => {
                        let txt = CString::new("x. 1 IN A 1.2.3.4").unwrap();
                        (t.add_to_question)(&mut *c.pp, &mut err, txt.as_ptr())
                    }
                    2 | 4 => {
                        let mut raw = [0u8; DNS_MAX_HOSTNAME_LEN + 1];
                        let mut raw_len: libc::size_t = 0;
                        let long = [b'x'; 70];
                        let name: &[u8] = if k == 2 { b"a..b" } else { &long };
                        (t.raw_name_from_str)(&mut raw, &mut raw_len, &mut err, name.as_ptr() as *const _, name.len())
                    }
                    6 | 7 | 8 => {
                        // failures raised inside an iteration callback: set_raw_name with a bad name, a second
                        // delete through the same cursor, set_name with a bad text
                        struct Cb<'a> {
                            t: &'a FnTable,
                            k: u8,
                            err: *const CErr,
                            rc: libc::c_int,
                        }
                        unsafe extern "C" fn cb(ctx: *mut libc::c_void, it: *const SectionIterator) -> bool {
                            unsafe {
                                let c = &mut *(ctx as *mut Cb);
                                let it = &mut *(it as *mut SectionIterator);
                                match c.k {
                                    6 => {
                                        let bad = [64u8, b'x', 0];
                                        c.rc = (c.t.set_raw_name)(it, &mut c.err, bad.as_ptr(), bad.len());
                                    }
                                    7 => {
                                        let mut e1: *const CErr = std::ptr::null();
                                        let _ = (c.t.delete)(it, &mut e1);
                                        c.rc = (c.t.delete)(it, &mut c.err);
                                    }
                                    _ => {
                                        let bad = b"\xe9t\xe9.example";
                                        c.rc = (c.t.set_name)(it, &mut c.err, bad.as_ptr() as *const _, bad.len(), std::ptr::null(), 0);
                                    }
                                }
                                true
                            }
                        }
                        // make sure there is an answer to iterate over
                        let mut e0: *const CErr = std::ptr::null();
                        let txt = CString::new("it. 1 IN A 9.9.9.8").unwrap();
                        let _ = (t.add_to_answer)(&mut *c.pp, &mut e0, txt.as_ptr());
                        let mut cbs = Cb { t, k, err: handed_in, rc: 0 };
                        (t.iter_answer)(&mut *c.pp, cb, &mut cbs as *mut Cb as *mut libc::c_void);
                        err = cbs.err;
                        cbs.rc
                    }
                    9 => {
                        // a second failure of the same error kind as the second question, with another text
                        let txt = CString::new(format!("t. 1 IN TXT \"{}\"", "z".repeat(4000))).unwrap();
                        (t.add_to_answer)(&mut *c.pp, &mut err, txt.as_ptr())
                    }
                    10 => {
                        // a record whose text parses but which cannot be built, for another reason than 9
                        let owner = format!("{}.{}.{}.{}.toolong", "a".repeat(62), "b".repeat(62), "c".repeat(62), "d".repeat(61));
                        let txt = CString::new(format!("{} 1 IN A 1.2.3.4", owner)).unwrap();
                        (t.add_to_answer)(&mut *c.pp, &mut err, txt.as_ptr())
                    }
                    5 => {
                        let tgt = [1u8; 300];
                        let src = [1u8, b'z', 0];
                        (t.rename_with_raw_names)(&mut *c.pp, &mut err, tgt.as_ptr(), tgt.len(), src.as_ptr(), src.len(), false)
                    }
                    _ => {
                        let tgt = [1u8, b'z', 0];
                        (t.rename_with_raw_names)(&mut *c.pp, &mut err, tgt.as_ptr(), tgt.len(), tgt.as_ptr(), 0, false)
                    }
                };
                if rc != -1 || err.is_null() {
                    return Err(format!("failing call {} returned {} / err={:?}", k, rc, err));
                }
                LAST_HANDLE.store(err as *mut CErr, std::sync::atomic::Ordering::SeqCst);
                c.last_err = err;
                let d = (t.error_description)(err);
                c.last_desc = d;
                let msg = CStr::from_ptr(d).to_string_lossy().to_string();
                c.last_msg = Some(msg.clone());
                Ok(format!("fail{}={}", k, msg))
            }
            Step::Succeed => {
                let mut err: *const CErr = std::ptr::null();
                let txt = CString::new("ok. 1 IN A 9.9.9.9").unwrap();
                let rc = (t.add_to_answer)(&mut *c.pp, &mut err, txt.as_ptr());
                if rc != 0 {
                    return Err(format!("succeeding call returned {}", rc));
                }
                Ok("ok".into())
            }
            Step::SucceedVia(k) => {
                let mut err: *const CErr = std::ptr::null();
                let rc = match k {
                    0 => {
                        let tgt = [1u8, b'k', 0];
                        let src = [1u8, b'b', 1, b'a', 0];
                        (t.rename_with_raw_names)(&mut *c.pp, &mut err, tgt.as_ptr(), tgt.len(), src.as_ptr(), src.len(), true)
                    }
                    2 => {
                        let mut raw = [0u8; DNS_MAX_HOSTNAME_LEN + 1];
                        let mut raw_len: libc::size_t = 0;
                        let name = b"fine.example";
                        (t.raw_name_from_str)(&mut raw, &mut raw_len, &mut err, name.as_ptr() as *const _, name.len())
                    }
                    _ => {
                        struct Cb<'a> {
                            t: &'a FnTable,
                            k: u8,
                            rc: libc::c_int,
                            done: bool,
                        }
                        unsafe extern "C" fn cb(ctx: *mut libc::c_void, it: *const SectionIterator) -> bool {
                            unsafe {
                                let c = &mut *(ctx as *mut Cb);
                                let it = &mut *(it as *mut SectionIterator);
                                if !c.done {
                                    c.done = true;
                                    let mut e: *const CErr = std::ptr::null();
                                    if c.k == 1 {
                                        c.rc = (c.t.delete)(it, &mut e);
                                    } else {
                                        let n = [2u8, b'o', b'k', 0];
                                        c.rc = (c.t.set_raw_name)(it, &mut e, n.as_ptr(), n.len());
                                    }
                                }
                                false
                            }
                        }
                        let mut e0: *const CErr = std::ptr::null();
                        let txt = CString::new("it. 1 IN A 9.9.9.8").unwrap();
                        let _ = (t.add_to_answer)(&mut *c.pp, &mut e0, txt.as_ptr());
                        let mut cbs = Cb { t, k, rc: -7, done: false };
                        (t.iter_answer)(&mut *c.pp, cb, &mut cbs as *mut Cb as *mut libc::c_void);
                        cbs.rc
                    }
                };
                if rc != 0 {
                    return Err(format!("succeeding call via entry {} returned {}", k, rc));
                }
                Ok("ok".into())
            }
            Step::Read => {
                if c.last_err.is_null() {
                    return Ok("read:none".into());
                }
                let d = (t.error_description)(c.last_err);
                c.last_desc = d;
                let msg = CStr::from_ptr(d).to_string_lossy().to_string();
                Ok(format!("read={}", msg))
            }
            Step::Peek => {
                if c.last_desc.is_null() {
                    return Ok("read:none".into());
                }
                let msg = CStr::from_ptr(c.last_desc).to_string_lossy().to_string();
                Ok(format!("read={}", msg))
            }
        }
    }
}

/// The message each failing step must produce: the `Display` of the error the NATIVE operation returns for the
/// same arguments (the C table is not involved, so nothing it may remember can leak into the oracle).
fn expected_messages() -> Vec<String> {
    let fresh = || crate::subj::parse(&base_packet()).unwrap();
    let with_answer = || {
        let mut p = fresh();
        p.insert_rr_from_string(Section::Answer, "it. 1 IN A 9.9.9.8").unwrap();
        p
    };
    fn e<E: std::fmt::Display>(r: Result<(), E>) -> String {
        r.err().map(|e| e.to_string()).unwrap_or_else(|| "<no error>".to_string())
    }
    vec![
        e(fresh().insert_rr_from_string(Section::Answer, "this is not a record")),
        e(r#gen::RR::from_string("x. 1 IN A 1.2.3.4").and_then(|rr| fresh().insert_rr(Section::Question, rr))),
        e(r#gen::raw_name_from_str(b"a..b", None).map(|_| ())),
        e(fresh().rename_with_raw_names(&[1u8, b'z', 0], &[], false)),
        e(r#gen::raw_name_from_str(&[b'x'; 70], None).map(|_| ())),
        e(fresh().rename_with_raw_names(&[1u8; 300], &[1u8, b'z', 0], false)),
        e({
            let mut p = with_answer();
            let mut it = p.into_iter_answer().unwrap();
            it.set_raw_name(&[64u8, b'x', 0])
        }),
        e({
            let mut p = with_answer();
            let mut it = p.into_iter_answer().unwrap();
            let _ = it.delete();
            it.delete()
        }),
        e(r#gen::raw_name_from_str(b"\xe9t\xe9.example", None).map(|_| ())),
        e(fresh().insert_rr_from_string(Section::Answer, &format!("t. 1 IN TXT \"{}\"", "z".repeat(4000)))),
        e(fresh().insert_rr_from_string(Section::Answer, &format!("{}.{}.{}.{}.toolong 1 IN A 1.2.3.4", "a".repeat(62), "b".repeat(62), "c".repeat(62), "d".repeat(61)))),
    ]
}

#[derive(Clone, Debug)]
struct Obs {
    thread: usize,
    step: usize,
    text: String,
}

/// One execution of the scripts under a schedule. Returns (exec, observations in global order).
fn execute(scripts: &[Vec<Step>], libpoints: bool, shared: bool, stale: bool, prefix: &[usize]) -> (Exec, Vec<Obs>) {
    LAST_HANDLE.store(std::ptr::null_mut(), std::sync::atomic::Ordering::SeqCst);
    let log: Arc<Mutex<Vec<Obs>>> = Arc::new(Mutex::new(vec![]));
    let common = Arc::new(SharedPacket(std::cell::UnsafeCell::new(crate::subj::parse(&base_packet()).unwrap())));
    let mut bodies: Vec<Body> = vec![];
    for (ti, sc) in scripts.iter().enumerate() {
        let sc = sc.clone();
        let log = log.clone();
        let common = common.clone();
        bodies.push(Box::new(move |h: &Handle| {
            let t = fn_table();
            let mut own = Box::new(crate::subj::parse(&base_packet()).unwrap());
            let pp: *mut ParsedPacket = if shared { common.0.get() } else { &mut *own };
            let mut c = ThreadCtx { stale, pp, _own: Some(own), last_err: std::ptr::null(), last_desc: std::ptr::null(), last_msg: None };
            if libpoints {
                let h2 = h.clone();
                verif_hooks::set_callback(Some(Box::new(move |kind| {
                    if kind.starts_with("throw_err") {
                        h2.point();
                    }
                })));
            }
            for (si, s) in sc.iter().enumerate() {
                if si > 0 {
                    h.point();
                }
                let text = match do_step(&t, &mut c, *s) {
                    Ok(x) => x,
                    Err(e) => format!("ERROR:{}", e),
                };
                log.lock().unwrap().push(Obs { thread: ti, step: si, text });
            }
            verif_hooks::set_callback(None);
        }));
    }
    let ex = run_schedule(bodies, prefix);
    let obs = log.lock().unwrap().clone();
    (ex, obs)
}

/// per-thread oracle: every read returns that thread's most recent failure message
fn judge(scripts: &[Vec<Step>], obs: &[Obs], exp: &[String]) -> Result<bool, String> {
    let mut foreign_between = false;
    for (ti, sc) in scripts.iter().enumerate() {
        let mut last: Option<(usize, &String)> = None; // (global position, message)
        for (si, s) in sc.iter().enumerate() {
            let (gpos, o) = match obs.iter().enumerate().find(|(_, o)| o.thread == ti && o.step == si) {
                Some(x) => x,
                None => return Err(format!("thread {} step {} left no observation", ti, si)),
            };
            if o.text.starts_with("ERROR:") {
                return Err(format!("thread {} step {}: {}", ti, si, o.text));
            }
            match s {
                Step::Fail(k) => {
                    let want = format!("fail{}={}", k, exp[*k as usize]);
                    if o.text != want {
                        return Err(format!("thread {} step {}: failing call described as {:?}, expected {:?}", ti, si, o.text, want));
                    }
                    last = Some((gpos, &exp[*k as usize]));
                }
                Step::Read | Step::Peek => {
                    if let Some((fpos, m)) = last {
                        let want = format!("read={}", m);
                        if o.text != want {
                            return Err(format!("thread {} step {}: read {:?}, but this thread's most recent failure was {:?}", ti, si, o.text, m));
                        }
                        if obs[fpos + 1..gpos].iter().any(|x| x.thread != ti && x.text.starts_with("fail")) {
                            foreign_between = true;
                        }
                    }
                }
                Step::Succeed | Step::SucceedVia(_) => {}
            }
        }
    }
    Ok(foreign_between)
}

fn scripts_upto(n: usize) -> Vec<Vec<Step>> {
    scripts_over(n, false)
}

/// `all_entries`: successful calls through every kind of entry, not only add_to_answer
fn scripts_over(n: usize, all_entries: bool) -> Vec<Vec<Step>> {
    let mut alpha = vec![Step::Fail(0), Step::Fail(1), Step::Fail(2), Step::Fail(3), Step::Fail(4), Step::Fail(5), Step::Fail(6), Step::Fail(7), Step::Fail(8), Step::Fail(9), Step::Fail(10), Step::Succeed, Step::Read, Step::Peek];
    if all_entries {
        alpha.extend([Step::SucceedVia(0), Step::SucceedVia(1), Step::SucceedVia(2), Step::SucceedVia(3)]);
    }
    let mut out: Vec<Vec<Step>> = vec![];
    let mut cur: Vec<Vec<Step>> = vec![vec![]];
    for _ in 0..n {
        let mut nxt = vec![];
        for c in &cur {
            for a in alpha.iter().cloned() {
                let mut d = c.clone();
                d.push(a);
                nxt.push(d);
            }
        }
        out.extend(nxt.iter().cloned());
        cur = nxt;
    }
    // keep scripts with at least one failure; a read before any failure is pointless
    out.retain(|s| s.iter().any(|x| matches!(x, Step::Fail(_))) && !matches!(s[0], Step::Read | Step::Peek));
    out
}

fn tuple_str(scripts: &[Vec<Step>]) -> String {
    scripts.iter().map(|s| s.iter().map(|x| step_char(*x)).collect::<String>()).collect::<Vec<_>>().join("|")
}

fn explore_tuple(ctx: &mut Ctx, rep: &mut Report, scripts: &[Vec<Step>], libpoints: bool, shared: bool, bound: usize, exp: &[String]) {
    explore_tuple_m(ctx, rep, scripts, libpoints, shared, false, bound, exp)
}

fn explore_tuple_m(ctx: &mut Ctx, rep: &mut Report, scripts: &[Vec<Step>], libpoints: bool, shared: bool, stale: bool, bound: usize, exp: &[String]) {
    let mut ex = Explorer { bound, max_execs: 20000, execs: 0, capped: false };
    let sc: Vec<Vec<Step>> = scripts.to_vec();
    let obs_cell: std::cell::RefCell<Vec<Obs>> = std::cell::RefCell::new(vec![]);
    let mut violation: Option<(String, String, Vec<usize>)> = None;
    let mut foreign = false;
    let mut outcomes: std::collections::BTreeSet<String> = Default::default();
    // the explorer needs bodies and observations of the same execution: run through `execute` directly
    let mut stack: Vec<Vec<usize>> = vec![vec![]];
    while let Some(prefix) = stack.pop() {
        if ex.execs >= ex.max_execs || ctx.timed_out() {
            ex.capped = true;
            break;
        }
        if ctx.journaling() {
            ctx.journal(|| json!({"scripts": tuple_str(&sc), "libpoints": libpoints, "shared": shared, "stale": stale, "schedule": prefix}));
        }
        let (x, obs) = execute(&sc, libpoints, shared, stale, &prefix);
        ex.execs += 1;
        rep.transitions += x.points.len() as u64;
        *obs_cell.borrow_mut() = obs.clone();
        if x.hung {
            // not a verdict on the property: the scheduler could not drive this execution to its end
            rep.notes.push(format!("an execution of {} could not be scheduled to completion (threads blocked outside the scheduler)", tuple_str(&sc)));
            rep.bump("unschedulable_executions", 1);
            continue;
        }
        if x.diverged {
            rep.notes.push(format!("schedule prefix diverged for {}", tuple_str(&sc)));
            continue;
        }
        outcomes.insert(obs.iter().map(|o| format!("{}.{}", o.thread, o.step)).collect::<Vec<_>>().join(","));
        match judge(&sc, &obs, exp) {
            Ok(f) => foreign |= f,
            Err(e) => {
                violation = Some(("foreign_description".into(), e, x.choices.clone()));
                break;
            }
        }
        let mut used = 0usize;
        let mut pre: Vec<usize> = vec![];
        for (i, p) in x.points.iter().enumerate() {
            pre.push(used);
            if p.running_enabled && x.choices[i] != 0 {
                used += 1;
            }
        }
        for i in (prefix.len()..x.points.len()).rev() {
            let p = &x.points[i];
            for alt in 1..p.enabled.len() {
                let cost = pre[i] + if p.running_enabled { 1 } else { 0 };
                if cost > ex.bound {
                    continue;
                }
                let mut np = x.choices[..i].to_vec();
                np.push(alt);
                stack.push(np);
            }
        }
    }
    rep.states += outcomes.len() as u64;
    rep.evaluations += ex.execs;
    rep.bump("executions", ex.execs);
    if ex.capped {
        rep.cap(format!("execution cap or time budget reached for a script tuple (e.g. {})", tuple_str(&sc)));
    }
    let shape: String = sc.iter().map(|s| s.len().to_string()).collect::<Vec<_>>().join("+");
    rep.class(&format!("threads={} steps={} libpoints={} shared={} stale={} foreign_between={} orders={}", sc.len(), shape, libpoints as u8, shared as u8, stale as u8, foreign as u8, outcomes.len().min(50)));
    if let Some((sig, what, schedule)) = violation {
        rep.violation(&sig, format!("scripts {}: {}", tuple_str(&sc), what), json!({"scripts": tuple_str(&sc), "libpoints": libpoints, "shared": shared, "stale": stale, "schedule": schedule}));
    } else if rep.samples.len() < MAX_SAMPLES && foreign {
        rep.sample(|| json!({"scripts": tuple_str(&sc), "libpoints": libpoints, "executions": ex.execs, "observation_order": obs_cell.borrow().iter().map(|o| format!("t{}:{}", o.thread, o.text)).collect::<Vec<_>>()}));
    }
}

fn run(ctx: &mut Ctx, rep: &mut Report) {
    let exp = expected_messages();
    if exp.iter().collect::<std::collections::BTreeSet<_>>().len() < 10 || exp.iter().any(|m| m == "<no error>") {
        rep.vacuity.push(format!("the nine failing calls produce fewer than eight distinct messages: {:?}", exp));
    }
    let s2 = scripts_upto(2);
    let mut gi = 0u64;
    let mut lap = std::time::Instant::now();
    let mut laps: Vec<String> = vec![];
    // 2 threads, step-level points: all interleavings
    for a in &s2 {
        for b in &s2 {
            gi += 1;
            if !ctx.mine(gi) || ctx.timed_out() {
                continue;
            }
            explore_tuple(ctx, rep, &[a.clone(), b.clone()], false, false, 99, &exp);
        }
    }
    laps.push(format!("two_threads_step_level={:.1}s", lap.elapsed().as_secs_f64()));
    lap = std::time::Instant::now();
    // 2 threads with the library's points, preemption bound
    let s_lib: Vec<Vec<Step>> = scripts_upto(2).into_iter().filter(|s| !s.iter().any(|x| matches!(x, Step::Fail(k) if *k >= 4))).collect();
    for a in &s_lib {
        for b in &s_lib {
            gi += 1;
            if !ctx.mine(gi) || ctx.timed_out() {
                continue;
            }
            explore_tuple(ctx, rep, &[a.clone(), b.clone()], true, false, ctx.tier.pick(2, 3), &exp);
        }
    }
    laps.push(format!("two_threads_library_points={:.1}s", lap.elapsed().as_secs_f64()));
    lap = std::time::Instant::now();
    // 3 threads: a failure/read thread against two failing threads
    let s3: Vec<Vec<Step>> = scripts_upto(2).into_iter().filter(|s| s.len() == 2 && !s.iter().any(|x| matches!(x, Step::Fail(k) if *k >= 4))).collect();
    let readers: Vec<Vec<Step>> = s3.iter().filter(|s| s[1] == Step::Read || s[1] == Step::Peek).cloned().collect();
    let failers: Vec<Vec<Step>> = vec![vec![Step::Fail(1)], vec![Step::Fail(2), Step::Fail(3)], vec![Step::Fail(0), Step::Read], vec![Step::Fail(4), Step::Fail(5)]];
    for a in &readers {
        for b in &failers {
            for c in &failers {
                gi += 1;
                if !ctx.mine(gi) || ctx.timed_out() {
                    continue;
                }
                explore_tuple(ctx, rep, &[a.clone(), b.clone(), c.clone()], false, false, 99, &exp);
            }
        }
    }
    laps.push(format!("three_threads={:.1}s", lap.elapsed().as_secs_f64()));
    lap = std::time::Instant::now();
    // stale handles: every call is handed a handle variable that still holds the handle most recently given to
    // any thread; 2 threads, scripts of up to 2 steps without the callback failures
    {
        let s_st: Vec<Vec<Step>> = scripts_upto(2).into_iter().filter(|s| !s.iter().any(|x| matches!(x, Step::Fail(k) if *k >= 6))).collect();
        for a in &s_st {
            for b in &s_st {
                gi += 1;
                if !ctx.mine(gi) || ctx.timed_out() {
                    continue;
                }
                explore_tuple_m(ctx, rep, &[a.clone(), b.clone()], false, false, true, 99, &exp);
            }
        }
    }
    laps.push(format!("stale_handles={:.1}s", lap.elapsed().as_secs_f64()));
    lap = std::time::Instant::now();
    // a crowd: one thread fails and keeps its description while N other threads start, fail, check their own
    // description and exit one after the other; then it looks again (one deterministic execution per N)
    for (i, n) in [1usize, 2, 15, 16, 17, 63, 64, 65, 127, 128, 129, 200, 255, 256, 257, 300, 600].into_iter().enumerate() {
        if !ctx.mine(i as u64) || ctx.timed_out() {
            continue;
        }
        if ctx.journaling() {
            ctx.journal(|| json!({"kind": "crowd", "n": n}));
        }
        rep.transitions += n as u64 + 3;
        rep.states += 1;
        rep.evaluations += 1;
        match crowd(n, &exp) {
            Ok(()) => rep.class(&format!("crowd of {} exiting threads", if n < 100 { "<100" } else { ">=100" })),
            Err(e) => rep.violation("foreign_description", format!("crowd of {}: {}", n, e), json!({"kind": "crowd", "n": n})),
        }
    }
    laps.push(format!("crowd={:.1}s", lap.elapsed().as_secs_f64()));
    lap = std::time::Instant::now();
    // one thread, longer scripts: a description must survive this thread's own later SUCCESSFUL calls and
    // re-reads until its next failure (no interleaving to explore: one execution per script)
    {
        let n1 = ctx.tier.pick(4, 5);
        for sc in scripts_over(n1, true).into_iter().filter(|s| s.len() >= 3) {
            gi += 1;
            if !ctx.mine(gi) || ctx.timed_out() {
                continue;
            }
            explore_tuple(ctx, rep, &[sc], false, false, 99, &exp);
        }
    }
    laps.push(format!("single_thread={:.1}s", lap.elapsed().as_secs_f64()));
    lap = std::time::Instant::now();
    // 2 and 3 threads working on ONE packet, handed from thread to thread at step boundaries (access to it
    // is serialised by the baton; the error descriptions must stay per thread all the same)
    let on_packet = |s: &Vec<Step>| !s.iter().any(|x| matches!(x, Step::Fail(k) if [2u8, 4, 7].contains(k)));
    let s_sh: Vec<Vec<Step>> = scripts_upto(2).into_iter().filter(|s| on_packet(s)).collect();
    for a in &s_sh {
        for b in &s_sh {
            gi += 1;
            if !ctx.mine(gi) || ctx.timed_out() {
                continue;
            }
            explore_tuple(ctx, rep, &[a.clone(), b.clone()], false, true, 99, &exp);
        }
    }
    for a in readers.iter().filter(|s| on_packet(s)) {
        for b in [vec![Step::Fail(1)], vec![Step::Fail(0), Step::Read]] {
            for c in [vec![Step::Fail(3)], vec![Step::Fail(5), Step::Fail(6)]] {
                gi += 1;
                if !ctx.mine(gi) || ctx.timed_out() {
                    continue;
                }
                explore_tuple(ctx, rep, &[a.clone(), b.clone(), c.clone()], false, true, 99, &exp);
            }
        }
    }
    laps.push(format!("shared_packet={:.1}s", lap.elapsed().as_secs_f64()));
    lap = std::time::Instant::now();
    // thorough: every 3-step script against every script of up to 2 steps (threads are symmetric, so one order)
    if ctx.tier == Tier::Thorough {
        let s3len: Vec<Vec<Step>> = scripts_upto(3).into_iter().filter(|s| s.len() == 3).collect();
        for a in &s3len {
            for b in &s2 {
                gi += 1;
                if !ctx.mine(gi) || ctx.timed_out() {
                    continue;
                }
                explore_tuple(ctx, rep, &[a.clone(), b.clone()], false, false, 99, &exp);
            }
        }
    }
    let _ = lap;
    if ctx.shard == 0 {
        rep.notes.push(format!("wall time per family in worker 0: {}", laps.join(" ")));
    }
    if ctx.timed_out() {
        rep.cap("time budget reached".into());
    }
}

/// Thread A fails (message 2) and keeps handle and text pointer; `n` threads then run one after the other, each
/// failing with message 4, checking its own description, and exiting; after each of them A's description is read
/// again through the handle, and at the end also through the text pointer it kept.
fn crowd(n: usize, exp: &[String]) -> Result<(), String> {
    use std::sync::mpsc::channel;
    let (to_a, a_rx) = channel::<()>();
    let (a_tx, from_a) = channel::<Result<(), String>>();
    let exp_a = exp[2].clone();
    let exp_b = exp[4].clone();
    let a = std::thread::spawn(move || {
        let t = fn_table();
        let mut own = Box::new(crate::subj::parse(&base_packet()).unwrap());
        let mut c = ThreadCtx { stale: false, pp: &mut *own, _own: Some(own), last_err: std::ptr::null(), last_desc: std::ptr::null(), last_msg: None };
        let first = do_step(&t, &mut c, Step::Fail(2)).and_then(|o| if o == format!("fail2={}", exp_a) { Ok(()) } else { Err(format!("own failure described as {:?}", o)) });
        let _ = a_tx.send(first);
        while a_rx.recv().is_ok() {
            let r = do_step(&t, &mut c, Step::Read).and_then(|o| if o == format!("read={}", exp_a) { Ok(()) } else { Err(format!("the waiting thread reads {:?}, its own most recent failure was {:?}", o, exp_a)) });
            let r = r.and_then(|_| do_step(&t, &mut c, Step::Peek)).and_then(|o| if o == format!("read={}", exp_a) { Ok(()) } else { Err(format!("the text the waiting thread kept now reads {:?}, it was {:?}", o, exp_a)) });
            if a_tx.send(r).is_err() {
                break;
            }
        }
    });
    let mut verdict = from_a.recv().map_err(|e| e.to_string())?;
    for k in 0..n {
        if verdict.is_err() {
            break;
        }
        let exp_b = exp_b.clone();
        let r = std::thread::spawn(move || {
            let t = fn_table();
            let mut own = Box::new(crate::subj::parse(&base_packet()).unwrap());
            let mut c = ThreadCtx { stale: false, pp: &mut *own, _own: Some(own), last_err: std::ptr::null(), last_desc: std::ptr::null(), last_msg: None };
            do_step(&t, &mut c, Step::Fail(4)).and_then(|o| if o == format!("fail4={}", exp_b) { Ok(()) } else { Err(format!("crowd thread's failure described as {:?}", o)) })
        })
        .join()
        .unwrap_or_else(|_| Err("crowd thread panicked".into()));
        if let Err(e) = r {
            verdict = Err(format!("after {} crowd threads: {}", k, e));
            break;
        }
        // look again after the first few, around powers of two, and at the end
        if k < 3 || (k + 2).is_power_of_two() || (k + 1).is_power_of_two() || k.is_power_of_two() || k + 1 == n {
            to_a.send(()).map_err(|e| e.to_string())?;
            verdict = from_a.recv().map_err(|e| e.to_string())?.map_err(|e| format!("after {} crowd threads: {}", k + 1, e));
        }
    }
    drop(to_a);
    let _ = a.join();
    verdict
}

fn replay(case: &Value) -> Result<String, String> {
    let scripts: Vec<Vec<Step>> = case["scripts"].as_str().unwrap_or("").split('|').map(parse_script).collect();
    let libpoints = case["libpoints"].as_bool().unwrap_or(false);
    let shared = case["shared"].as_bool().unwrap_or(false);
    let stale = case["stale"].as_bool().unwrap_or(false);
    if case["kind"].as_str() == Some("crowd") {
        let n = case["n"].as_u64().unwrap_or(0) as usize;
        return crowd(n, &expected_messages()).map(|_| format!("the description survived {} other threads failing and exiting", n));
    }
    let schedule: Vec<usize> = case["schedule"].as_array().map(|a| a.iter().map(|x| x.as_u64().unwrap_or(0) as usize).collect()).unwrap_or_default();
    let exp = expected_messages();
    let mut results = vec![];
    for round in 0..2 {
        let (x, obs) = execute(&scripts, libpoints, shared, stale, &schedule);
        if round == 0 {
            for o in &obs {
                println!("  t{} step {}: {}", o.thread, o.step, o.text);
            }
        }
        results.push((x.hung, obs.iter().map(|o| format!("{}:{}:{}", o.thread, o.step, o.text)).collect::<Vec<_>>(), judge(&scripts, &obs, &exp)));
        if x.hung {
            break;
        }
    }
    if results.len() == 2 && results[0].1 != results[1].1 {
        return Ok("replay is not deterministic: the same schedule gave different observations (machinery problem, no verdict)".into());
    }
    match &results[0] {
        (true, _, _) => Err("execution hangs".into()),
        (_, _, Err(e)) => Err(e.clone()),
        _ => Ok("every read returned the thread's own most recent failure".into()),
    }
}
