//! mc — bounded-exhaustive exploration of dnssector against a reference model.
//!   mc check <ID> <quick|thorough>
//!   mc worker <ID> <tier> <shard> <nshards> <seed> <budget_s>      (internal)
//!   mc replay <file>

mod engine;
mod bfs;
mod bfs_exec;
mod bfs_model;
mod c03;
mod c04;
mod c05;
mod c06;
mod c07;
mod c11;
mod c12;
mod c13;
mod c14;
mod c15;
mod c16;
mod c17;
mod sched;
mod c18;
mod subj;
mod sweep_parse;

use engine::*;
use serde_json::{json, Value};
use std::time::{Duration, Instant};

pub struct PropDef {
    pub id: &'static str,
    pub rule: &'static str,
    pub run: fn(&mut Ctx, &mut Report),
    /// re-executes one case; Ok = passes, Err = still violates
    pub replay: fn(&Value) -> Result<String, String>,
    pub bounds: fn(Tier) -> Value,
    pub assumptions: &'static [&'static str],
    pub budget_s: fn(Tier) -> u64,
    pub exhaustive: bool,
    pub nshards: usize,
    /// extra self-checks on the merged report (vacuity); returns failures
    pub post: fn(&Report, Tier) -> Vec<String>,
}

fn registry() -> Vec<PropDef> {
    vec![sweep_parse::c01(), sweep_parse::c02(), c03::def(), c04::def(), c05::def(), c06::def(), c07::def(), bfs::c08(), bfs::c09(), bfs::c10(), c11::def(), c12::def(), c13::def(), c14::def(), c18::def(), c16::def(), c17::def(), c15::def()]
}

fn find(id: &str) -> PropDef {
    registry()
        .into_iter()
        .find(|p| p.id == id)
        .unwrap_or_else(|| {
            eprintln!("unknown property {}", id);
            std::process::exit(2)
        })
}

fn tier_of(arg: &str) -> Tier {
    let t = std::env::var("VERIF_TIER").unwrap_or_else(|_| arg.to_string());
    match t.as_str() {
        "thorough" => Tier::Thorough,
        _ => Tier::Quick,
    }
}

fn main() {
    // The sandbox exports RUST_BACKTRACE=1, which makes every anyhow error capture a backtrace.
    std::env::remove_var("RUST_BACKTRACE");
    std::env::remove_var("RUST_LIB_BACKTRACE");
    let args: Vec<String> = std::env::args().collect();
    if args.len() < 2 {
        eprintln!("usage: mc check|worker|replay ...");
        std::process::exit(2);
    }
    match args[1].as_str() {
        "check" => {
            let code = check(&args[2], tier_of(args.get(3).map(|s| s.as_str()).unwrap_or("quick")));
            std::process::exit(code);
        }
        "worker" => worker(&args),
        "replay" => {
            let code = replay(&args[2]);
            std::process::exit(code);
        }
        "c15-batch" => c15::batch_main(args[2].parse().unwrap()),
        "c17-eval" => c17::eval_main(&args[2], args[3].parse().unwrap()),
        "list" => {
            for p in registry() {
                println!("{}", p.id);
            }
        }
        _ => {
            eprintln!("unknown command");
            std::process::exit(2);
        }
    }
}

fn worker(args: &[String]) {
    install_panic_hook();
    let def = find(&args[2]);
    let tier = if args[3] == "thorough" { Tier::Thorough } else { Tier::Quick };
    let shard: usize = args[4].parse().unwrap();
    let nshards: usize = args[5].parse().unwrap();
    let seed: u64 = args[6].parse().unwrap();
    let budget: u64 = args[7].parse().unwrap();
    let journal = std::env::var("VERIF_JOURNAL")
        .ok()
        .map(|p| std::fs::OpenOptions::new().create(true).append(true).open(p).expect("journal"));
    let mut ctx = Ctx {
        prop: def.id.to_string(),
        tier,
        seed,
        shard,
        nshards,
        deadline: Instant::now() + Duration::from_secs(budget),
        journal,
    };
    let mut rep = Report::default();
    (def.run)(&mut ctx, &mut rep);
    println!("{}", rep.to_json());
}

fn replay(path: &str) -> i32 {
    install_panic_hook();
    let s = match std::fs::read_to_string(path) {
        Ok(s) => s,
        Err(e) => {
            eprintln!("cannot read {}: {}", path, e);
            return 2;
        }
    };
    let v: Value = match serde_json::from_str(&s) {
        Ok(v) => v,
        Err(e) => {
            eprintln!("bad replay file: {}", e);
            return 2;
        }
    };
    let def = find(v["property"].as_str().unwrap_or(""));
    println!("replaying property={} signature={}", def.id, v["signature"].as_str().unwrap_or(""));
    if let Some(h) = v["case"].get("__history__") {
        // re-run the whole deterministic call sequence of one worker shard and look for the same violation
        let tier = if h["tier"].as_str() == Some("thorough") { Tier::Thorough } else { Tier::Quick };
        let mut ctx = Ctx {
            prop: def.id.to_string(),
            tier,
            seed: h["seed"].as_u64().unwrap_or(0),
            shard: h["shard"].as_u64().unwrap_or(0) as usize,
            nshards: h["nshards"].as_u64().unwrap_or(16) as usize,
            deadline: Instant::now() + Duration::from_secs((def.budget_s)(tier) * 3),
            journal: None,
        };
        let mut rep = Report::default();
        (def.run)(&mut ctx, &mut rep);
        let want_sig = v["case"]["sig"].as_str().unwrap_or("");
        let want_case = &v["case"]["case"];
        println!("replayed the call history of worker shard {}/{} ({} transitions)", ctx.shard, ctx.nshards, rep.transitions);
        return match rep.violations.iter().find(|x| x.sig == want_sig && x.case == *want_case) {
            Some(x) => {
                println!("STILL VIOLATES: {} (in this history)", x.what);
                1
            }
            None => {
                println!("PASS: the violation does not occur in this history");
                0
            }
        };
    }
    match (def.replay)(&v["case"]) {
        Ok(desc) => {
            println!("PASS: {}", desc);
            0
        }
        Err(desc) => {
            println!("STILL VIOLATES: {}", desc);
            1
        }
    }
}

fn check(id: &str, tier: Tier) -> i32 {
    let def = find(id);
    let seed: u64 = std::env::var("VERIF_SEED").ok().and_then(|s| s.parse().ok()).unwrap_or(0);
    let budget = (def.budget_s)(tier);
    let nshards = def.nshards;
    let out = run_workers(def.id, tier, seed, nshards, budget);
    let mut rep = out.report;
    let mut machinery_fail = vec![];

    // crashed shards: identify the case, confirm twice
    for (shard, why) in &out.crashed_shards {
        eprintln!("worker shard {} ended abnormally: {}", shard, why);
        match find_crash_case(def.id, tier, seed, *shard, nshards, budget) {
            Some(case) => {
                rep.violation(
                    "crash",
                    format!("worker process died (abort/stack overflow/kill) on this case: {}", why),
                    case,
                );
                if let Some(v) = rep.violations.last_mut() {
                    v.shard = Some(*shard);
                }
            }
            None => machinery_fail.push(format!("shard {} crashed and the case could not be identified: {}", shard, why)),
        }
    }

    // confirm every stored violation by replaying it in a fresh process, twice
    let known = load_known();
    let mut fresh = vec![];
    let mut known_hits: Vec<String> = vec![];
    let violations = std::mem::take(&mut rep.violations);
    for (i, v) in violations.iter().enumerate() {
        let path = write_replay(def.id, i, v);
        let (c1, t1) = replay_subprocess(&path, Duration::from_secs(120));
        let (c2, _t2) = replay_subprocess(&path, Duration::from_secs(120));
        let reproduced = |c: i32| c == 1 || c < 0 || c == 101 || c == 134 || c == 139;
        let mut v = v.clone();
        let mut path = path;
        let (mut c1, mut c2, mut t1) = (c1, c2, t1);
        if c1 == 0 && c2 == 0 && v.shard.is_some() && v.case.get("__history__").is_none() {
            // The case passes when run alone in a fresh process: the verdict depended on calls made earlier
            // by the same worker. Replay that worker's whole (deterministic) sequence of calls instead.
            let hist = json!({"__history__": {"tier": tier.name(), "shard": v.shard.unwrap(), "nshards": nshards, "seed": seed}, "sig": v.sig, "case": v.case});
            let hv = Violation { shard: v.shard, sig: v.sig.clone(), what: format!("{} [only after the calls this worker process made before it: the result depends on earlier calls]", v.what), case: hist };
            let _ = std::fs::remove_file(&path);
            path = write_replay(def.id, i, &hv);
            let (h1, ht) = replay_subprocess(&path, Duration::from_secs(budget * 3 + 60));
            let (h2, _) = replay_subprocess(&path, Duration::from_secs(budget * 3 + 60));
            c1 = h1;
            c2 = h2;
            t1 = ht;
            v = hv;
        }
        let v = &v;
        if c1 != c2 || !reproduced(c1) {
            machinery_fail.push(format!(
                "violation {} did not reproduce deterministically on replay (exit {} / {}): {} [{}]",
                v.sig, c1, c2, v.what, t1
            ));
            continue;
        }
        if let Some(k) = known.open.iter().find(|k| k.0 == def.id && k.1 == v.sig) {
            let line = format!("KNOWN-FINDING: property={} {} [{}]", def.id, k.2, v.sig);
            if !known_hits.contains(&line) {
                known_hits.push(line);
            }
            let _ = std::fs::remove_file(&path);
        } else {
            fresh.push((path.clone(), v.clone()));
        }
    }
    for l in &known_hits {
        println!("{}", l);
    }
    for (path, v) in &fresh {
        println!("VIOLATION property={} replay={}", def.id, path.display());
        println!("  signature={} total_cases_with_this_signature={}", v.sig, rep.violation_counts.get(&v.sig).copied().unwrap_or(1));
        println!("  {}", v.what);
    }

    // vacuity self-checks
    if rep.classes.len() < 2 {
        machinery_fail.push(format!("vacuous run: only {} distinct outcome classes", rep.classes.len()));
    }
    // a family that was never reached because the time budget ran out is a cap (reported as such), not a
    // defect of the machinery: the coverage self-checks of the property are then notes in the evidence
    let budget_hit = rep.caps.iter().any(|c| c.contains("time budget"));
    // the same when the parser turned away packets the policy accepts (C02 reports those): the packets this
    // check wanted to look at never became objects, which is the subject's doing, not the machinery's
    let parser_refused = rep.classes.keys().any(|k| k.contains("parser_rejected"));
    for v in (def.post)(&rep, tier) {
        if budget_hit {
            rep.notes.push(format!("not reached within the time budget: {}", v));
        } else if parser_refused && def.id != "C02" && def.id != "C01" {
            rep.notes.push(format!("not covered because the parser rejected well-formed packets (see C02): {}", v));
        } else {
            machinery_fail.push(format!("vacuity self-check: {}", v));
        }
    }
    for v in &rep.vacuity {
        machinery_fail.push(format!("vacuity self-check: {}", v));
    }

    let meta = EvidenceMeta {
        prop: def.id,
        tier,
        seed,
        rule: def.rule,
        assumptions: def.assumptions.iter().map(|s| s.to_string()).collect(),
        bounds: (def.bounds)(tier),
        exhaustive_space: def.exhaustive,
    };
    write_evidence(&meta, &rep, out.wall, fresh.len(), &known_hits);

    println!(
        "{} {}: states={} transitions={} classes={} violations={} known={} caps={:?} wall={:.1}s",
        def.id,
        tier.name(),
        rep.states,
        rep.transitions,
        rep.classes.len(),
        fresh.len(),
        known_hits.len(),
        rep.caps,
        out.wall
    );
    if !fresh.is_empty() {
        return 1;
    }
    if !machinery_fail.is_empty() {
        for m in &machinery_fail {
            eprintln!("MACHINERY FAILURE: {}", m);
        }
        return 2;
    }
    let _ = json!(null);
    0
}
