//! BFS over operation sequences (C08/C09/C10): state snapshots, operation alphabet, abstract semantics.

use dnssector::*;
use refmodel::gen::*;
use refmodel::msg::*;
use refmodel::ops::*;
use refmodel::wire::*;
use serde_json::{json, Value};

#[derive(Clone, Debug, PartialEq, Eq, Hash)]
pub struct Snap {
    pub packet: Option<Vec<u8>>,
    pub oq: Option<usize>,
    pub oa: Option<usize>,
    pub on: Option<usize>,
    pub oad: Option<usize>,
    pub oe: Option<usize>,
    pub edns_count: u16,
    pub ext_rcode: Option<u8>,
    pub edns_version: Option<u8>,
    pub ext_flags: Option<u16>,
    pub maybe_compressed: bool,
    pub max_payload: usize,
    pub cached: Option<(Vec<u8>, u16, u16)>,
}

pub fn snap(pp: &ParsedPacket) -> Snap {
    Snap {
        packet: pp.packet.clone(),
        oq: pp.offset_question,
        oa: pp.offset_answers,
        on: pp.offset_nameservers,
        oad: pp.offset_additional,
        oe: pp.offset_edns,
        edns_count: pp.edns_count,
        ext_rcode: pp.ext_rcode,
        edns_version: pp.edns_version,
        ext_flags: pp.ext_flags,
        maybe_compressed: pp.maybe_compressed,
        max_payload: pp.max_payload,
        cached: pp.cached.clone(),
    }
}

pub fn restore(s: &Snap) -> ParsedPacket {
    // field by field on top of a packet the library built itself, so that a field this harness does not
    // know keeps the value the library gives a fresh packet (a struct literal would stop compiling)
    let mut pp = ParsedPacket::empty();
    pp.packet = s.packet.clone();
    pp.offset_question = s.oq;
    pp.offset_answers = s.oa;
    pp.offset_nameservers = s.on;
    pp.offset_additional = s.oad;
    pp.offset_edns = s.oe;
    pp.edns_count = s.edns_count;
    pp.ext_rcode = s.ext_rcode;
    pp.edns_version = s.edns_version;
    pp.ext_flags = s.ext_flags;
    pp.maybe_compressed = s.maybe_compressed;
    pp.max_payload = s.max_payload;
    pp.cached = s.cached.clone();
    pp
}

// ---------------------------------------------------------------------------------------------
// alphabet

#[derive(Clone, Copy, Debug, PartialEq, Eq, Hash)]
pub enum NameArg {
    Root,
    X,
    YyX,
    SameLen,
    PlusLabel,
    Max255,
    Upper,
    Reshaped, // same wire length as the current name, first two labels merged into one
    Trailing, // a valid name followed by more bytes in the same slice (a scratch buffer, a slice into another packet)
    Bad64,
    BadUnterminated,
    BadPointer,
    Empty,
    BadCtrl,
    BadDot,
    BadBackslash,
    Huge, // valid 255-byte name; fails only when the packet would exceed 65535 bytes
}

pub const NAMES_OK: [NameArg; 9] = [NameArg::Root, NameArg::X, NameArg::YyX, NameArg::SameLen, NameArg::PlusLabel, NameArg::Max255, NameArg::Upper, NameArg::Reshaped, NameArg::Trailing];
pub const NAMES_BAD: [NameArg; 7] = [NameArg::Bad64, NameArg::BadUnterminated, NameArg::BadPointer, NameArg::Empty, NameArg::BadCtrl, NameArg::BadDot, NameArg::BadBackslash];

pub fn name_arg(a: NameArg, current: &[u8]) -> Vec<u8> {
    match a {
        NameArg::Root => vec![0],
        NameArg::X => nm("x"),
        NameArg::YyX => nm("yy.x"),
        NameArg::SameLen => {
            let mut n = current.to_vec();
            let mut o = 0;
            while o < n.len() && n[o] != 0 {
                let l = n[o] as usize;
                for b in n[o + 1..o + 1 + l].iter_mut() {
                    *b = b'q';
                }
                o += 1 + l;
            }
            n
        }
        NameArg::PlusLabel => {
            let mut n = vec![1, b'n'];
            n.extend_from_slice(current);
            if n.len() > 255 {
                current.to_vec()
            } else {
                n
            }
        }
        NameArg::Max255 | NameArg::Huge => name_of_wire_len(255),
        NameArg::Upper => nm("UP.x"),
        NameArg::Trailing => {
            let mut n = nm("tr.x");
            n.extend_from_slice(&[0, 1, 0, 1, 0xde, 0xad, 0, 0, 0, 5]);
            n
        }
        NameArg::Reshaped => {
            // [l1 ..][l2 ..] rest  ->  [l1+l2+1 .. 'j' ..] rest : same length, other label boundaries
            let n = current.to_vec();
            if n.len() < 2 || n[0] == 0 {
                return n;
            }
            let l1 = n[0] as usize;
            let l2 = *n.get(1 + l1).unwrap_or(&0) as usize;
            if l2 == 0 || l1 + l2 + 1 > 63 {
                return n;
            }
            let mut m = n.clone();
            m[0] = (l1 + l2 + 1) as u8;
            m[1 + l1] = b'j';
            m
        }
        NameArg::Bad64 => {
            let mut n = vec![64u8];
            n.extend(std::iter::repeat(b'x').take(64));
            n.push(0);
            n
        }
        NameArg::BadUnterminated => vec![1, b'a'],
        NameArg::BadPointer => vec![1, b'a', 0xc0, 0x0c],
        NameArg::Empty => vec![],
        NameArg::BadCtrl => vec![1, 0x01, 0],
        NameArg::BadDot => vec![2, b'a', b'.', 0],
        NameArg::BadBackslash => vec![1, b'\\', 0],
    }
}

#[derive(Clone, Debug, PartialEq, Eq, Hash)]
pub enum CurOp {
    SetName(NameArg),
    Delete,
    SetTtl(u32),
    SetIp(u8), // 0: v4 zeros, 1: v4 ones, 2: v6 zeros, 3: v6 ones
    Uncompress,
    Next,
    NextInclOpt,
}

#[derive(Clone, Debug, PartialEq, Eq, Hash)]
pub enum Op {
    SetTid(u16),
    SetFlags(u32),
    SetRcode(u8),
    SetOpcode(u8),
    SetResponse(bool),
    QuestionRaw0,
    Recompute,
    InsertText(Sec, usize),
    InsertQuestion(usize),
    InsertFiller(Sec, usize), // filler record sized so that the (uncompressed) packet becomes exactly this long
    Rename(usize),
    Cursor { sec: Sec, incl_opt: bool, index: usize, prog: Vec<CurOp> },
}

pub fn sec_name(s: Sec) -> &'static str {
    match s {
        Sec::Question => "question",
        Sec::Answer => "answer",
        Sec::Authority => "authority",
        Sec::Additional => "additional",
    }
}

pub fn sec_from(s: &str) -> Sec {
    match s {
        "question" => Sec::Question,
        "answer" => Sec::Answer,
        "authority" => Sec::Authority,
        _ => Sec::Additional,
    }
}

pub fn op_to_json(op: &Op) -> Value {
    match op {
        Op::SetTid(v) => json!({"op": "set_tid", "v": v}),
        Op::SetFlags(v) => json!({"op": "set_flags", "v": v}),
        Op::SetRcode(v) => json!({"op": "set_rcode", "v": v}),
        Op::SetOpcode(v) => json!({"op": "set_opcode", "v": v}),
        Op::SetResponse(v) => json!({"op": "set_response", "v": v}),
        Op::QuestionRaw0 => json!({"op": "question_raw0"}),
        Op::Recompute => json!({"op": "recompute"}),
        Op::InsertText(s, i) => json!({"op": "insert_text", "sec": sec_name(*s), "i": i, "text": insert_texts()[*i].0}),
        Op::InsertQuestion(i) => json!({"op": "insert_question", "i": i}),
        Op::InsertFiller(s, n) => json!({"op": "insert_filler", "sec": sec_name(*s), "n": n}),
        Op::Rename(i) => json!({"op": "rename", "i": i}),
        Op::Cursor { sec, incl_opt, index, prog } => json!({"op": "cursor", "sec": sec_name(*sec), "incl_opt": incl_opt, "index": index,
            "prog": prog.iter().map(|c| match c {
                CurOp::SetName(a) => json!({"c": "set_raw_name", "a": format!("{:?}", a)}),
                CurOp::Delete => json!({"c": "delete"}),
                CurOp::SetTtl(v) => json!({"c": "set_rr_ttl", "v": v}),
                CurOp::SetIp(v) => json!({"c": "set_rr_ip", "v": v}),
                CurOp::Uncompress => json!({"c": "uncompress"}),
                CurOp::Next => json!({"c": "next"}),
                CurOp::NextInclOpt => json!({"c": "next_including_opt"}),
            }).collect::<Vec<_>>()}),
    }
}

fn name_arg_from(s: &str) -> NameArg {
    for a in NAMES_OK.iter().chain(NAMES_BAD.iter()).chain([NameArg::Huge].iter()) {
        if format!("{:?}", a) == s {
            return *a;
        }
    }
    panic!("unknown name arg {}", s)
}

pub fn op_from_json(v: &Value) -> Op {
    let u = |k: &str| v[k].as_u64().unwrap_or(0);
    match v["op"].as_str().unwrap_or("") {
        "set_tid" => Op::SetTid(u("v") as u16),
        "set_flags" => Op::SetFlags(u("v") as u32),
        "set_rcode" => Op::SetRcode(u("v") as u8),
        "set_opcode" => Op::SetOpcode(u("v") as u8),
        "set_response" => Op::SetResponse(v["v"].as_bool().unwrap_or(false)),
        "question_raw0" => Op::QuestionRaw0,
        "recompute" => Op::Recompute,
        "insert_text" => Op::InsertText(sec_from(v["sec"].as_str().unwrap_or("")), u("i") as usize),
        "insert_question" => Op::InsertQuestion(u("i") as usize),
        "insert_filler" => Op::InsertFiller(sec_from(v["sec"].as_str().unwrap_or("")), u("n") as usize),
        "rename" => Op::Rename(u("i") as usize),
        "cursor" => Op::Cursor {
            sec: sec_from(v["sec"].as_str().unwrap_or("")),
            incl_opt: v["incl_opt"].as_bool().unwrap_or(false),
            index: u("index") as usize,
            prog: v["prog"]
                .as_array()
                .map(|a| {
                    a.iter()
                        .map(|c| match c["c"].as_str().unwrap_or("") {
                            "set_raw_name" => CurOp::SetName(name_arg_from(c["a"].as_str().unwrap_or(""))),
                            "delete" => CurOp::Delete,
                            "set_rr_ttl" => CurOp::SetTtl(c["v"].as_u64().unwrap_or(0) as u32),
                            "set_rr_ip" => CurOp::SetIp(c["v"].as_u64().unwrap_or(0) as u8),
                            "uncompress" => CurOp::Uncompress,
                            "next" => CurOp::Next,
                            _ => CurOp::NextInclOpt,
                        })
                        .collect()
                })
                .unwrap_or_default(),
        },
        other => panic!("unknown op {}", other),
    }
}

/// record texts for insertion: (text, expected record or None when the text must be rejected)
pub fn insert_texts() -> Vec<(&'static str, Option<Rec>)> {
    let mut ip6 = [0u8; 16];
    ip6[15] = 1;
    let mut soa = soa_rec(&nm("a"), 1, &nm("ns.a"), &nm("admin.a"));
    if let Rdata::Soa(_, _, f) = &mut soa.rdata {
        *f = [0, 0, 0, 1, 0, 0, 0, 2, 0, 0, 0, 3, 0, 0, 0, 4, 0, 0, 0, 5];
    }
    vec![
        ("x. 60 IN A 1.2.3.4", Some(a_rec(&nm("x"), 60, [1, 2, 3, 4]))),
        ("b.a. 4294967295 IN AAAA ::1", Some(aaaa_rec(&nm("b.a"), 0xffff_ffff, ip6))),
        ("x 5 IN NS ns.x.", Some(name_rec(&nm("x"), T_NS, 5, &nm("ns.x")))),
        ("a. 1 IN MX 10 mail.a.", Some(mx_rec(&nm("a"), 1, 10, &nm("mail.a")))),
        ("a. 1 IN SOA ns.a. admin.a. ( 1 2 3 4 5 )", Some(soa)),
        ("x. 0 IN TXT \"hi\"", Some(txt_rec(&nm("x"), 0, b"hi"))),
        (". 5 IN NS a.", Some(name_rec(&vec![0u8], T_NS, 5, &nm("a")))),
        ("x. 9 IN DS 1 2 3 abcd", Some(Rec { owner: nm("x"), rtype: T_DS, class: 1, ttl: 9, rdata: Rdata::Opaque(vec![0, 1, 2, 3, 0xab, 0xcd]) })),
        ("", None),
        ("x. 60 IN A", None),
        ("x. 60 XX A 1.2.3.4", None),
        ("x. 4294967296 IN A 1.2.3.4", None),
        ("x. 1 IN DS 1 2 3 abc", None),
    ]
}
pub const N_TEXT_OK: usize = 8;

pub fn rename_triples() -> Vec<(Name, Name, bool)> {
    // (target, source, suffix)
    vec![
        (nm("z.y"), nm("b.a"), true),
        (nm("k"), nm("a"), true),
        (nm("z"), nm("nomatch.example"), false),
        (name_of_wire_len(252), nm("a"), true),
        (nm("B.A"), nm("b.a"), false),
        // structurally sound target holding a byte the record-name policy forbids: must fail (and change
        // nothing) whenever some name is actually rewritten
        (vec![2, b'k', 0x01, 0], nm("a"), true),
    ]
}

// ---------------------------------------------------------------------------------------------
// abstract semantics

pub fn plain_len(m: &Msg) -> usize {
    encode(m, Strategy::Plain).len()
}

pub fn valid_new_name(n: &[u8]) -> Option<Name> {
    // the accepted part of the argument is its leading well-formed strict pointer-free name
    match name_strict(n, 0) {
        Ok(i) if i.pointers == 0 => Some(n[..i.end].to_vec()),
        _ => None,
    }
}

pub fn model_insert(m: &Msg, sec: Sec, rec: &Rec) -> Result<Msg, OpErr> {
    let mut out = m.clone();
    let rec_len = encode_rec_plain(rec).len();
    if plain_len(m) + rec_len > 8192 {
        return Err(OpErr::TooLarge);
    }
    out.sec_mut(sec).push(rec.clone());
    Ok(out)
}

pub fn model_insert_question(m: &Msg, q: &Question) -> Result<Msg, OpErr> {
    if !m.q.is_empty() {
        return Err(OpErr::SecondQuestion);
    }
    if plain_len(m) + q.name.len() + 4 > 8192 {
        return Err(OpErr::TooLarge);
    }
    let mut out = m.clone();
    out.q.push(q.clone());
    Ok(out)
}

pub fn question_menu() -> Vec<Question> {
    vec![
        Question { name: nm("b.a"), qtype: T_A, qclass: 1 },
        Question { name: nm("x"), qtype: T_MX, qclass: 1 },
    ]
}

pub fn ip_arg(v: u8) -> std::net::IpAddr {
    use std::net::*;
    match v {
        0 => IpAddr::V4(Ipv4Addr::new(0, 0, 0, 0)),
        1 => IpAddr::V4(Ipv4Addr::new(255, 255, 255, 255)),
        2 => IpAddr::V6(Ipv6Addr::from([0u8; 16])),
        _ => IpAddr::V6(Ipv6Addr::from([0xffu8; 16])),
    }
}

pub fn ip_bytes(v: u8) -> Vec<u8> {
    match v {
        0 => vec![0; 4],
        1 => vec![255; 4],
        2 => vec![0; 16],
        _ => vec![255; 16],
    }
}

pub fn filler_rr(owner: &str, rdata_len: usize) -> Result<r#gen::RR, String> {
    r#gen::RR::new(
        r#gen::RRHeader {
            name: owner.as_bytes().to_vec(),
            ttl: 1,
            class: Class::IN,
            rr_type: Type::TXT,
        },
        &vec![0u8; rdata_len],
    )
    .map_err(|e| e.to_string())
}

pub fn filler_rec(rdata_len: usize) -> Rec {
    Rec { owner: nm("f"), rtype: T_TXT, class: 1, ttl: 1, rdata: Rdata::Opaque(vec![0u8; rdata_len]) }
}
