//! Controlled scheduler for real OS threads (one baton) and a stateless, preemption-bounded
//! depth-first explorer over its choice sequences.

use std::sync::{Arc, Condvar, Mutex};
use std::time::{Duration, Instant};

struct S {
    granted: Vec<bool>,
    at_point: Vec<bool>,
    done: Vec<bool>,
    blocked: Vec<bool>, // granted but neither arrived at a point nor finished within the grace period
    free_run: bool,     // set after a hang: every point() returns immediately
}

#[derive(Clone)]
pub struct Handle {
    id: usize,
    sh: Arc<(Mutex<S>, Condvar)>,
}

impl Handle {
    /// A scheduling point: hand the baton back and wait to be scheduled again.
    pub fn point(&self) {
        let (m, cv) = &*self.sh;
        let mut s = m.lock().unwrap();
        if s.free_run {
            return;
        }
        s.at_point[self.id] = true;
        s.blocked[self.id] = false;
        s.granted[self.id] = false;
        cv.notify_all();
        while !s.granted[self.id] && !s.free_run {
            s = cv.wait(s).unwrap();
        }
        s.at_point[self.id] = false;
    }
    fn finish(&self) {
        let (m, cv) = &*self.sh;
        let mut s = m.lock().unwrap();
        s.done[self.id] = true;
        s.blocked[self.id] = false;
        s.granted[self.id] = false;
        cv.notify_all();
    }
}

#[derive(Clone, Debug)]
pub struct Point {
    /// enabled threads in canonical order: the running thread first if still enabled, then ascending ids
    pub enabled: Vec<usize>,
    pub running_enabled: bool,
}

#[derive(Debug, Default)]
pub struct Exec {
    pub points: Vec<Point>,
    pub choices: Vec<usize>,
    pub hung: bool,
    pub diverged: bool,
    pub blocked_seen: bool,
}

pub type Body = Box<dyn FnOnce(&Handle) + Send + 'static>;

/// Runs the bodies on real threads under the schedule `prefix` (then default choices: keep running
/// the current thread, else the lowest enabled id). A thread that was granted the baton but blocks
/// outside the scheduler (on a real lock held by a preempted thread) is set aside after a grace
/// period and the other threads keep being scheduled; it re-enters at its next point.
pub fn run_schedule(bodies: Vec<Body>, prefix: &[usize]) -> Exec {
    let n = bodies.len();
    let sh = Arc::new((
        Mutex::new(S { granted: vec![false; n], at_point: vec![false; n], done: vec![false; n], blocked: vec![false; n], free_run: false }),
        Condvar::new(),
    ));
    let mut joins = vec![];
    for (i, b) in bodies.into_iter().enumerate() {
        let h = Handle { id: i, sh: sh.clone() };
        joins.push(std::thread::spawn(move || {
            h.point(); // initial point: wait to be scheduled for the first time
            let r = std::panic::catch_unwind(std::panic::AssertUnwindSafe(|| b(&h)));
            h.finish();
            r.is_ok()
        }));
    }
    let mut ex = Exec::default();
    let (m, cv) = &*sh;
    let mut running: Option<usize> = None;
    let grace = Duration::from_millis(40);
    let deadline = Duration::from_millis(4000);
    loop {
        let mut s = m.lock().unwrap();
        let t0 = Instant::now();
        // wait until every live thread sits at a point or is set aside as blocked
        loop {
            let quiescent = (0..n).all(|i| s.done[i] || s.at_point[i] || s.blocked[i]);
            if quiescent {
                break;
            }
            let (g, _to) = cv.wait_timeout(s, Duration::from_millis(10)).unwrap();
            s = g;
            if t0.elapsed() > grace {
                for i in 0..n {
                    if !s.done[i] && !s.at_point[i] && !s.blocked[i] {
                        s.blocked[i] = true;
                        ex.blocked_seen = true;
                    }
                }
            }
        }
        let at: Vec<usize> = (0..n).filter(|&i| !s.done[i] && s.at_point[i]).collect();
        if at.is_empty() {
            if (0..n).all(|i| s.done[i]) {
                break;
            }
            // only blocked threads are left: give them time, then call it a hang
            let t1 = Instant::now();
            let mut progressed = false;
            while t1.elapsed() < deadline {
                let (g, _) = cv.wait_timeout(s, Duration::from_millis(20)).unwrap();
                s = g;
                if (0..n).any(|i| !s.done[i] && s.at_point[i]) || (0..n).all(|i| s.done[i]) {
                    progressed = true;
                    break;
                }
            }
            if progressed {
                continue;
            }
            ex.hung = true;
            s.free_run = true;
            cv.notify_all();
            drop(s);
            return ex; // threads are left to finish on their own
        }
        let mut enabled: Vec<usize> = vec![];
        let running_enabled = running.map(|r| at.contains(&r)).unwrap_or(false);
        if running_enabled {
            enabled.push(running.unwrap());
        }
        for &i in &at {
            if !(running_enabled && Some(i) == running) {
                enabled.push(i);
            }
        }
        let k = ex.points.len();
        let choice = if k < prefix.len() { prefix[k] } else { 0 };
        if choice >= enabled.len() {
            ex.diverged = true;
            s.free_run = true;
            cv.notify_all();
            drop(s);
            for j in joins {
                let _ = j.join();
            }
            return ex;
        }
        let chosen = enabled[choice];
        ex.points.push(Point { enabled, running_enabled });
        ex.choices.push(choice);
        running = Some(chosen);
        s.granted[chosen] = true;
        s.at_point[chosen] = false;
        cv.notify_all();
    }
    for j in joins {
        let _ = j.join();
    }
    ex
}

