//! C18: validation work is linear in the packet size (hook step counter).

use crate::engine::*;
use crate::subj;
use crate::PropDef;
use dnssector::verif_hooks;
use refmodel::gen::*;
use refmodel::msg::hex;
use serde_json::{json, Value};

pub fn def() -> PropDef {
    PropDef {
        id: "C18",
        rule: "adversarial families as full parameter grids: shared pointer chain of k in {0,1,2,8,15,16,17,32,256,4096} segments x segment shape {bare pointer, 1-byte label, 63-byte label, 60 one-byte labels} x record kind {A, NS, MX, SOA, mixed} x packet size {1K..128K}, over-long label runs (up to 8000 labels) shared by all records, dense OPT option lists up to 65535 bytes, pairs (fresh unknown type, record of type t in 1..=260 naming that type in its data) sharing a 120-label name, plus every input of the L1 byte sweep; oracle: steps <= 64*len+4096 on every input and, inside each family, steps/len at double size <= 1.25 x steps/len + 1; and, for work done outside the counted steps, wall-clock time of at least 100 ms must not grow more than 3.2-fold when the size doubles (minimum of three runs); distinct classes = (family shape, accepted?, steps-per-byte bucket)",
        run,
        replay,
        bounds: |t| json!({"sizes": sizes(t), "chains": CHAINS, "segment_shapes": 4, "record_kinds": 5, "L1_tail": t.pick(5, 6)}),
        assumptions: &["steps are counted by the verif_hooks counter placed in the name-walking, record and option loops; a rewrite that loops without passing a hook is only caught as a hang by the worker's wall-clock budget"],
        budget_s: |t| t.pick(50, 600),
        exhaustive: true,
        nshards: 16,
        post: |rep, _| {
            let mut v = vec![];
            for need in ["acc=1", "acc=0", "spb=8+", "fam=opt", "fam=chain", "fam=run"] {
                if !rep.classes.keys().any(|k| k.contains(need)) {
                    v.push(format!("no explored input with {}", need));
                }
            }
            v
        },
    }
}

const CHAINS: [usize; 10] = [0, 1, 2, 8, 15, 16, 17, 32, 256, 4096];

fn sizes(t: Tier) -> Vec<usize> {
    t.pick(vec![1024, 2048, 4096, 8192, 16384, 32768, 65536], vec![1024, 2048, 4096, 8192, 16384, 32768, 65536, 131072, 262144])
}

#[derive(Clone, Copy, Debug)]
struct Shape {
    k: usize,    // chain segments
    seg: usize,  // 0 bare pointer, 1 one 1-byte label, 2 one 63-byte label, 3 sixty 1-byte labels
    kind: usize, // 0 A, 1 NS, 2 MX, 3 SOA, 4 mixed
}

fn put_ptr(p: &mut Vec<u8>, t: usize) {
    p.push(0xc0 | (t >> 8) as u8);
    p.push(t as u8);
}

/// Packet of about `size` bytes: question, one opaque record holding a pointer chain, then as many
/// records as fit whose owner (and rdata names) point at the top of the chain.
fn chain_packet(size: usize, sh: Shape) -> Vec<u8> {
    let mut p = vec![0x12, 0x34, 0x80, 0, 0, 1, 0, 0, 0, 0, 0, 0];
    p.extend_from_slice(&[1, b'q', 0, 0, 1, 0, 1]);
    // chain holder
    p.push(0);
    p.extend_from_slice(&[0, 99, 0, 1, 0, 0, 0, 1, 0, 0]);
    let rdlen_at = p.len() - 2;
    let rd = p.len();
    // S_0: a terminal name
    let mut top = p.len();
    p.extend_from_slice(&[1, b'z', 0]);
    for i in 0..sh.k {
        if p.len() + 130 >= 16384 {
            break;
        }
        let here = p.len();
        match sh.seg {
            0 => {}
            1 => p.extend_from_slice(&[1, b'a' + (i % 26) as u8]),
            2 => {
                p.push(63);
                p.extend(std::iter::repeat(b'l').take(63));
            }
            _ => {
                for _ in 0..60 {
                    p.extend_from_slice(&[1, b'm']);
                }
            }
        }
        put_ptr(&mut p, top);
        top = here;
    }
    let rdlen = p.len() - rd;
    p[rdlen_at] = (rdlen >> 8) as u8;
    p[rdlen_at + 1] = rdlen as u8;
    let mut count = 1usize;
    let mut i = 0usize;
    while p.len() + 64 < size && count < 65535 {
        let kind = if sh.kind == 4 { i % 4 } else { sh.kind };
        i += 1;
        put_ptr(&mut p, top);
        match kind {
            0 => p.extend_from_slice(&[0, 1, 0, 1, 0, 0, 0, 1, 0, 4, 1, 2, 3, 4]),
            1 => {
                p.extend_from_slice(&[0, 2, 0, 1, 0, 0, 0, 1, 0, 2]);
                put_ptr(&mut p, top);
            }
            2 => {
                p.extend_from_slice(&[0, 15, 0, 1, 0, 0, 0, 1, 0, 4, 0, 5]);
                put_ptr(&mut p, top);
            }
            _ => {
                p.extend_from_slice(&[0, 6, 0, 1, 0, 0, 0, 1, 0, 24]);
                put_ptr(&mut p, top);
                put_ptr(&mut p, top);
                p.extend_from_slice(&[0; 20]);
            }
        }
        count += 1;
    }
    p[6] = (count >> 8) as u8;
    p[7] = count as u8;
    p
}

/// A run of `labels` one-byte labels as the question name (over-long beyond 127), every record's owner points at it.
fn run_packet(size: usize, labels: usize, kind: usize) -> Vec<u8> {
    let mut p = vec![0x12, 0x34, 0x80, 0, 0, 1, 0, 0, 0, 0, 0, 0];
    for _ in 0..labels {
        if p.len() + 8 >= 16384 {
            break;
        }
        p.extend_from_slice(&[1, b'r']);
    }
    p.push(0);
    p.extend_from_slice(&[0, 1, 0, 1]);
    let mut count = 0usize;
    while p.len() + 64 < size && count < 65535 {
        put_ptr(&mut p, 12);
        if kind == 0 {
            p.extend_from_slice(&[0, 1, 0, 1, 0, 0, 0, 1, 0, 4, 1, 2, 3, 4]);
        } else {
            p.extend_from_slice(&[0, 6, 0, 1, 0, 0, 0, 1, 0, 24]);
            put_ptr(&mut p, 12);
            put_ptr(&mut p, 12);
            p.extend_from_slice(&[0; 20]);
        }
        count += 1;
    }
    p[6] = (count >> 8) as u8;
    p[7] = count as u8;
    p
}

/// Response of about `size` bytes: a 120-label question name, then pairs (record of a fresh unknown type,
/// record of type `t` whose data starts with that fresh type's number, RRSIG-shaped: 18 fixed bytes, a root
/// name, 4 more bytes), every owner a pointer to the question name. A validator that looks back at earlier
/// records when it meets a record of type `t` does quadratic work here.
fn refer_back_packet(size: usize, t: u16) -> Vec<u8> {
    let mut p = vec![0x12, 0x34, 0x84, 0, 0, 1, 0, 0, 0, 0, 0, 0];
    for i in 0..120 {
        p.extend_from_slice(&[1, b'a' + (i % 26) as u8]);
    }
    p.push(0);
    p.extend_from_slice(&[0, 1, 0, 1]);
    let mut count = 0usize;
    while p.len() + 60 < size && count + 2 <= 65534 {
        let fresh = 0x0100u16 + (count / 2) as u16;
        put_ptr(&mut p, 12);
        p.extend_from_slice(&fresh.to_be_bytes());
        p.extend_from_slice(&[0, 1, 0, 0, 0, 1, 0, 0]);
        put_ptr(&mut p, 12);
        p.extend_from_slice(&t.to_be_bytes());
        p.extend_from_slice(&[0, 1, 0, 0, 0, 1, 0, 23]);
        p.extend_from_slice(&fresh.to_be_bytes());
        p.extend_from_slice(&[8, 2, 0, 0, 0, 1, 0x7f, 0, 0, 0, 0x60, 0, 0, 0, 0x12, 0x34]);
        p.push(0);
        p.extend_from_slice(&[1, 2, 3, 4]);
        count += 2;
    }
    p[6] = (count >> 8) as u8;
    p[7] = count as u8;
    p
}

/// query with one OPT record whose data is `n` options of `olen` bytes each (dense lists)
fn opt_packet(size: usize, olen: usize) -> Vec<u8> {
    let mut p = vec![0x12, 0x34, 0, 0, 0, 1, 0, 0, 0, 0, 0, 1];
    p.extend_from_slice(&[1, b'q', 0, 0, 1, 0, 1]);
    p.extend_from_slice(&[0, 0, 41, 4, 0, 0, 0, 0, 0]);
    let room = size.saturating_sub(p.len() + 2).min(65535);
    let n = room / (4 + olen);
    let rdlen = n * (4 + olen);
    p.extend_from_slice(&(rdlen as u16).to_be_bytes());
    for i in 0..n {
        // option codes: all alike for even sizes of the parameter, all distinct otherwise
        let code: u16 = if olen % 2 == 0 { 8 } else { 0x100 + i as u16 };
        p.extend_from_slice(&code.to_be_bytes());
        p.extend_from_slice(&(olen as u16).to_be_bytes());
        p.extend(std::iter::repeat(0u8).take(olen));
    }
    p
}

thread_local! {
    static LAST_WALL_US: std::cell::Cell<u64> = const { std::cell::Cell::new(0) };
}

fn measure(x: &[u8]) -> Result<(u64, bool), String> {
    subj::arm_steps(x.len());
    let t0 = std::time::Instant::now();
    let r = caught(|| subj::parse(x).is_ok());
    let wall = t0.elapsed();
    LAST_WALL_US.with(|w| w.set(wall.as_micros() as u64));
    let steps = verif_hooks::steps();
    subj::disarm_steps();
    // work done in loops that pass no hook point does not show in the step count; as a coarse second line a parse
    // must not take longer than 2 s + 50 us per byte (the explored inputs take well under 10 ms each on a loaded machine)
    if r.is_ok() && wall.as_micros() as u64 > 2_000_000 + 50 * x.len() as u64 {
        return Err(format!("wall-clock bound exceeded: parsing {} bytes took {} ms ({} hook steps)", x.len(), wall.as_millis(), steps));
    }
    match r {
        Ok(acc) => Ok((steps, acc)),
        Err(p) => Err(p),
    }
}

fn family(fam: &str, params: &Value, build: &dyn Fn(usize) -> Vec<u8>, tier: Tier, rep: &mut Report) {
    let mut prev: Option<(usize, f64)> = None;
    let mut prev_wall: Option<(usize, u64)> = None;
    for &s in &sizes(tier) {
        let x = build(s);
        rep.transitions += 1;
        rep.states += 1;
        let m = measure(&x);
        // second line for work done outside the hook points: wall-clock time, looked at only where it is large
        // enough to mean something (>= 100 ms; unchanged code needs about a millisecond for these inputs). Growth
        // by more than 3.2x when the size doubles, confirmed as the minimum of three runs, is quadratic work.
        if m.is_ok() {
            let mut wall = LAST_WALL_US.with(|w| w.get());
            if wall >= 100_000 {
                for _ in 0..2 {
                    let _ = measure(&x);
                    wall = wall.min(LAST_WALL_US.with(|w| w.get()));
                }
            }
            if let Some((ps, pw)) = prev_wall {
                if x.len() >= 2 * ps - 200 && wall >= 100_000 && pw >= 10_000 && wall as f64 > 3.2 * pw as f64 {
                    rep.violation("superlinear_wall_clock", format!("family {} {}: {} ms at {} bytes but {} ms at {} bytes (work outside the counted steps grows faster than the input)", fam, params, wall / 1000, x.len(), pw / 1000, ps), json!({"family": fam, "params": params, "size": s}));
                    return;
                }
            }
            prev_wall = Some((x.len(), wall));
        }
        match m {
            Err(p) => {
                let sig = if p.contains("step ceiling") { "steps_exceed_absolute_bound".to_string() } else if p.contains("wall-clock bound") { "wall_clock_exceeds_bound".to_string() } else { format!("parse:panic:{}", panic_site(&p)) };
                rep.violation(&sig, format!("family {} {} at size {}: {}", fam, params, x.len(), p), json!({"family": fam, "params": params, "size": s}));
                return;
            }
            Ok((steps, acc)) => {
                let spb = steps as f64 / x.len() as f64;
                let bucket = if spb >= 8.0 { "8+" } else if spb >= 2.0 { "2+" } else if spb >= 0.5 { "0.5+" } else { "0" };
                rep.class(&format!("fam={} acc={} spb={}", fam, acc as u8, bucket));
                if let Some((ps, pr)) = prev {
                    if x.len() >= 2 * ps - 200 && spb > 1.25 * pr + 1.0 {
                        rep.violation("superlinear_growth", format!("family {} {}: {:.2} steps/byte at {} bytes but {:.2} at {} bytes", fam, params, spb, x.len(), pr, ps), json!({"family": fam, "params": params, "size": s}));
                        return;
                    }
                }
                if rep.samples.len() < MAX_SAMPLES && s == 4096 {
                    rep.sample(|| json!({"family": fam, "params": params, "size": x.len(), "steps": steps, "accepted": acc}));
                }
                prev = Some((x.len(), spb));
            }
        }
    }
}

fn run(ctx: &mut Ctx, rep: &mut Report) {
    let tier = ctx.tier;
    let mut gi = 0u64;
    for &k in CHAINS.iter() {
        for seg in 0..4 {
            for kind in 0..5 {
                gi += 1;
                if !ctx.mine(gi) {
                    continue;
                }
                let sh = Shape { k, seg, kind };
                let params = json!({"k": k, "seg": seg, "kind": kind});
                if ctx.journaling() {
                    ctx.journal(|| json!({"family": "chain", "params": params, "size": 0}));
                }
                family("chain", &params, &|s| chain_packet(s, sh), tier, rep);
            }
        }
    }
    for labels in [1usize, 63, 126, 127, 128, 200, 1000, 8000] {
        for kind in 0..2 {
            gi += 1;
            if !ctx.mine(gi) {
                continue;
            }
            let params = json!({"labels": labels, "kind": kind});
            family("run", &params, &|s| run_packet(s, labels, kind), tier, rep);
        }
    }
    // every record type 1..=260 (and the meta types) in the role of "a record that refers to an earlier one"
    for t in (1u16..=260).chain([32768, 32769, 65280, 65535]) {
        gi += 1;
        if !ctx.mine(gi) {
            continue;
        }
        let params = json!({"type": t});
        if ctx.journaling() {
            ctx.journal(|| json!({"family": "refer", "params": params, "size": 0}));
        }
        family("refer", &params, &|s| refer_back_packet(s, t), tier, rep);
    }
    for olen in [0usize, 1, 3, 4, 100] {
        gi += 1;
        if !ctx.mine(gi) {
            continue;
        }
        let params = json!({"olen": olen});
        family("opt", &params, &|s| opt_packet(s, olen), tier, rep);
    }
    // every short input: absolute bound only
    let alpha: [u8; 9] = [0x00, 0x01, 0x02, 0x0c, 0x29, 0x2e, 0x40, 0x61, 0xc0];
    let tails = Tails { alphabet: &alpha, max_len: tier.pick(5, 6) };
    let n = tails.count();
    let mut tail = vec![];
    let mut buf = vec![];
    let mut maxsteps = 0u64;
    for h in header_menu().iter().chain(header_q_menu().iter()) {
        for i in 0..n {
            gi += 1;
            if !ctx.mine(gi) {
                continue;
            }
            tails.get(i, &mut tail);
            buf.clear();
            buf.extend_from_slice(h);
            buf.extend_from_slice(&tail);
            rep.transitions += 1;
            rep.states += 1;
            match measure(&buf) {
                Ok((s, _)) => maxsteps = maxsteps.max(s),
                Err(p) => rep.violation("steps_exceed_absolute_bound", format!("short input {}: {}", hex(&buf), p), json!({"family": "L1", "input": hex(&buf)})),
            }
        }
    }
    // every 16-bit value of every length field (a length that makes a cursor stand still must show here)
    {
        let ctxp: *mut Ctx = ctx;
        let repp: *mut Report = rep;
        let mp: *mut u64 = &mut maxsteps;
        length_field_packets(|i, p| {
            let (ctx, rep, maxsteps) = unsafe { (&mut *ctxp, &mut *repp, &mut *mp) };
            if !ctx.mine(i) {
                return;
            }
            rep.transitions += 1;
            rep.states += 1;
            match measure(p) {
                Ok((s, _)) => *maxsteps = (*maxsteps).max(s),
                Err(e) => rep.violation("steps_exceed_absolute_bound", format!("length-field input {}: {}", hex(p), e), json!({"family": "L1", "input": hex(p)})),
            }
        });
    }
    // header flags x inflated record counts x every truncation (work must follow the bytes, not the counts)
    {
        let ctxp: *mut Ctx = ctx;
        let repp: *mut Report = rep;
        let mp: *mut u64 = &mut maxsteps;
        flags_truncation_packets(|i, p| {
            let (ctx, rep, maxsteps) = unsafe { (&mut *ctxp, &mut *repp, &mut *mp) };
            if !ctx.mine(i) {
                return;
            }
            rep.transitions += 1;
            rep.states += 1;
            match measure(p) {
                Ok((s, _)) => *maxsteps = (*maxsteps).max(s),
                Err(e) => rep.violation("steps_exceed_absolute_bound", format!("flags/counts/truncation input ({} bytes) {}: {}", p.len(), hex(&p[..p.len().min(40)]), e), json!({"family": "L1", "input": hex(p)})),
            }
        });
    }
    // root question name, lying counts, every short tail over pointer-ish bytes
    {
        let ctxp: *mut Ctx = ctx;
        let repp: *mut Report = rep;
        let mp: *mut u64 = &mut maxsteps;
        root_pointer_packets(tier.pick(8, 9), |i, p| {
            let (ctx, rep, maxsteps) = unsafe { (&mut *ctxp, &mut *repp, &mut *mp) };
            if !ctx.mine(i) {
                return;
            }
            rep.transitions += 1;
            rep.states += 1;
            match measure(p) {
                Ok((s, _)) => *maxsteps = (*maxsteps).max(s),
                Err(e) => rep.violation("steps_exceed_absolute_bound", format!("root-name input {}: {}", hex(p), e), json!({"family": "L1", "input": hex(p)})),
            }
        });
    }
    rep.class(&format!("fam=L1 maxsteps<={}", (maxsteps / 8 + 1) * 8));
    rep.evaluations = rep.transitions;
}

fn replay(case: &Value) -> Result<String, String> {
    let fam = case["family"].as_str().unwrap_or("");
    if fam == "L1" {
        let x = refmodel::msg::unhex(case["input"].as_str().unwrap_or(""));
        return measure(&x).map(|(s, a)| format!("{} steps, accepted={}", s, a));
    }
    let p = &case["params"];
    let u = |k: &str| p[k].as_u64().unwrap_or(0) as usize;
    let build: Box<dyn Fn(usize) -> Vec<u8>> = match fam {
        "chain" => {
            let sh = Shape { k: u("k"), seg: u("seg"), kind: u("kind") };
            Box::new(move |s| chain_packet(s, sh))
        }
        "refer" => {
            let t = u("type") as u16;
            Box::new(move |s| refer_back_packet(s, t))
        }
        "run" => {
            let (l, k) = (u("labels"), u("kind"));
            Box::new(move |s| run_packet(s, l, k))
        }
        _ => {
            let o = u("olen");
            Box::new(move |s| opt_packet(s, o))
        }
    };
    let mut rep = Report::default();
    let tier = if case["size"].as_u64().unwrap_or(0) > 65536 { Tier::Thorough } else { Tier::Quick };
    for &s in &sizes(tier) {
        let x = build(s);
        println!("size {:>7}: {:?}", x.len(), measure(&x).map(|(st, a)| format!("{} steps ({:.2}/byte) accepted={}", st, st as f64 / x.len() as f64, a)));
    }
    family(fam, p, &*build, tier, &mut rep);
    match rep.violations.first() {
        Some(v) => Err(format!("[{}] {}", v.sig, v.what)),
        None => Ok("family stays linear".into()),
    }
}
