//! C05: decompression keeps the message; output is pointer-free, valid and stable; offsets carried.

use crate::engine::*;
use crate::PropDef;
use dnssector::*;
use refmodel::gen::*;
use refmodel::msg::*;
use refmodel::ops::diff;
use refmodel::wire::*;
use serde_json::{json, Value};

pub fn def() -> PropDef {
    PropDef {
        id: "C05",
        rule: "every L3 message (names x record menu x <=k records x OPT at every position) under every encoding strategy, accepted packets of L2/L4/L5 (incl. 16-pointer chains, 255-byte names, expansion beyond 65535 bytes), each x every record-boundary offset; distinct classes = (strategy, pointer chain length, OPT position, record-type set)",
        run,
        replay,
        bounds: |t| { let (n, l, k) = params(t); json!({"names": n, "record_menu_level": l, "max_records": k, "strategies": format!("{:?}", ALL_STRATEGIES), "boundaries": "start of question, of every record, end of packet"}) },
        assumptions: &["refmodel decode is the RFC 1035 reading; wf is the parser policy"],
        budget_s: |t| t.pick(50, 900),
        exhaustive: true,
        nshards: 16,
        post: |rep, _| {
            let mut v = vec![];
            for need in ["chain=0", "chain=1", "chain=2", "chain=16", "opt=middle", "big=1"] {
                if !rep.classes.keys().any(|k| k.contains(need)) {
                    v.push(format!("no explored packet with {}", need));
                }
            }
            v
        },
    }
}

fn params(t: Tier) -> (usize, usize, usize) {
    t.pick((4, 1, 2), (5, 1, 3))
}

pub fn check_packet(x: &[u8]) -> Result<String, (String, String)> {
    let d = decode(x).expect("undecodable generated packet");
    if crate::subj::parse(x).is_err() {
        return Ok("parser_rejected(C02)".into());
    }
    let r = caught(|| Compress::uncompress(x).map_err(|e| e.to_string()));
    let u = match r {
        Err(p) => return Err((format!("uncompress:panic:{}", panic_site(&p)), format!("uncompress panicked: {}", p))),
        Ok(Err(e)) => return Err(("uncompress:error".into(), format!("uncompress failed on an accepted packet: {}", e))),
        Ok(Ok(u)) => u,
    };
    if let Err(c) = wf(&u) {
        return Err((format!("uncompress:output_ill_formed:{:?}", c), format!("output violates clause {:?}: {}", c, hex(&u))));
    }
    if crate::subj::parse(&u).is_err() {
        return Err(("uncompress:output_rejected".into(), "output is rejected by the parser".into()));
    }
    if u[..12] != x[..12] {
        return Err(("uncompress:header".into(), "header changed".into()));
    }
    let du = decode(&u).map_err(|e| ("uncompress:output_undecodable".to_string(), format!("{:?}", e)))?;
    if du.msg != d.msg {
        return Err(("uncompress:message_changed".into(), diff(&d.msg, &du.msg)));
    }
    if !du.pointer_free {
        return Err(("uncompress:pointer_left".into(), "output still contains a compression pointer in a name".into()));
    }
    match caught(|| Compress::uncompress(&u).map_err(|e| e.to_string())) {
        Ok(Ok(u2)) if u2 == u => {}
        other => return Err(("uncompress:not_idempotent".into(), format!("second decompression differs: {:?}", other.map(|r| r.map(|b| hex(&b)))))),
    }
    // offsets carried across: boundaries of x map to the same boundaries of u
    let mut bx: Vec<usize> = vec![d.qspan.as_ref().unwrap().start];
    bx.extend(d.spans.iter().map(|s| s.start));
    bx.push(x.len());
    let mut bu: Vec<usize> = vec![du.qspan.as_ref().unwrap().start];
    bu.extend(du.spans.iter().map(|s| s.start));
    bu.push(u.len());
    for (i, (&ox, &ou)) in bx.iter().zip(bu.iter()).enumerate() {
        match caught(|| Compress::uncompress_with_previous_offset(x, ox).map_err(|e| e.to_string())) {
            Ok(Ok((u3, o))) => {
                if u3 != u {
                    return Err(("uncompress_with_previous_offset:bytes".into(), format!("boundary {}: output differs from uncompress()", i)));
                }
                // a zero-length tail (end of packet == start of a following empty record list) is the only
                // place two boundaries coincide in x; then the boundary reported must be one of the equals
                if o != ou && !(bx.iter().zip(bu.iter()).any(|(&a, &b)| a == ox && b == o)) {
                    return Err(("uncompress_with_previous_offset:offset".into(), format!("boundary {} at input offset {} carried to {}, expected {}", i, ox, o, ou)));
                }
            }
            Ok(Err(e)) => return Err(("uncompress_with_previous_offset:error".into(), e)),
            Err(p) => return Err((format!("uncompress_with_previous_offset:panic:{}", panic_site(&p)), p)),
        }
    }
    let mut types: Vec<u16> = d.msg.all_recs().map(|r| type_bucket(r.rtype)).collect();
    types.sort();
    types.dedup();
    let optpos = match d.msg.ar.iter().position(|r| r.rtype == T_OPT) {
        None => "none",
        Some(i) if i + 1 == d.msg.ar.len() => "last",
        Some(0) => "first",
        _ => "middle",
    };
    Ok(format!("chain={} opt={} big={} grow={} types={:?}", d.max_chain, optpos, (u.len() > 65535) as u8, (u.len() > x.len()) as u8, types))
}

fn one(ctx: &mut Ctx, rep: &mut Report, x: &[u8], fam: &str) {
    if ctx.journaling() {
        ctx.journal(|| json!({"input": hex(x)}));
    }
    rep.transitions += 1;
    rep.states += 1;
    match check_packet(x) {
        Ok(c) => {
            rep.class(&format!("{} {}", fam, c));
            if rep.samples.len() < MAX_SAMPLES && x.len() > 50 && rep.transitions % 4001 == 0 {
                rep.sample(|| json!({"input": hex(x), "message": describe(&decode(x).unwrap().msg), "class": c}));
            }
        }
        Err((sig, what)) => rep.violation(&sig, what, json!({"input": hex(x)})),
    }
}

/// L5 for decompression: many records whose names expand to 255 bytes (expansion > 65535 bytes),
/// and 255-byte names behind 16-pointer chains.
pub fn l5_packets() -> Vec<Vec<u8>> {
    let mut v = vec![];
    let long = name_of_wire_len(255);
    let mut m = base_msg(&long, T_A, true);
    for i in 0..300u32 {
        m.an.push(name_rec(&long, T_CNAME, i, &long));
    }
    v.push(encode(&m, Strategy::Max));
    let mut m2 = base_msg(&long, T_A, true);
    for _ in 0..3 {
        m2.an.push(mx_rec(&long, 1, 1, &long));
        m2.ns.push(soa_rec(&long, 1, &long, &long));
    }
    v.push(encode(&m2, Strategy::Chain));
    v.push(encode(&m2, Strategy::Max));
    for k in [15usize, 16] {
        for sl in [1usize, 13, 14] {
            v.push(pointer_chain_packet(k, sl));
        }
    }
    v.retain(|p| wf(p).is_ok());
    v
}

fn run(ctx: &mut Ctx, rep: &mut Report) {
    let (nn, level, k) = params(ctx.tier);
    let names: Vec<Name> = std_names()[..nn].to_vec();
    let menu = rec_menu(&names, level);
    let opts = opt_variants();
    let qnames = if k >= 3 { vec![names[2].clone()] } else { vec![names[2].clone(), names[0].clone()] };
    let shard = ctx.shard as u64;
    let nsh = ctx.nshards as u64;
    let ctxp: *mut Ctx = ctx;
    let repp: *mut Report = rep;
    messages(&qnames, &menu, &opts, k, &|g| g % nsh == shard, |m| {
        let (ctx, rep) = unsafe { (&mut *ctxp, &mut *repp) };
        if ctx.timed_out() {
            rep.cap("time budget reached inside the L3 universe".into());
            return;
        }
        for s in ALL_STRATEGIES.iter() {
            let x = encode(m, *s);
            one(ctx, rep, &x, "L3");
        }
    });
    all_types_packets(false, |i, p| {
        let (ctx, rep) = unsafe { (&mut *ctxp, &mut *repp) };
        if ctx.mine(i) {
            one(ctx, rep, p, "types");
        }
    });
    accepted_low_level(ctx.tier.pick(0, 1), |i, p| {
        let (ctx, rep) = unsafe { (&mut *ctxp, &mut *repp) };
        if ctx.mine(i) {
            one(ctx, rep, p, "low");
        }
    });
    for (i, p) in l5_packets().iter().enumerate() {
        if ctx.mine(i as u64) {
            one(ctx, rep, p, "L5");
        }
    }
}

fn replay(case: &Value) -> Result<String, String> {
    let x = unhex(case["input"].as_str().unwrap_or(""));
    println!("input: {}", if x.len() < 400 { hex(&x) } else { format!("{} bytes", x.len()) });
    if let Ok(d) = decode(&x) {
        if x.len() < 400 {
            println!("message: {}", describe(&d.msg));
        }
    }
    match check_packet(&x) {
        Ok(c) => Ok(c),
        Err((sig, what)) => Err(format!("[{}] {}", sig, what)),
    }
}
