//! C15: the C function table is a faithful, memory-safe facade over the native API.
//! Hook scripts are executed twice from the same initial packet: by a C interpreter compiled against
//! the shipped c_hook.h (calling entries by their header field names) and natively in Rust; the
//! transcripts (every return value and out-buffer) and the final objects must be equal.

use crate::bfs_model::{snap, Snap};
use crate::engine::*;
use crate::PropDef;
use dnssector::*;
use refmodel::gen::*;
use refmodel::msg::*;
use refmodel::wire::*;
use serde_json::{json, Value};
use std::net::IpAddr;

#[allow(improper_ctypes)]
extern "C" {
    fn driver_run(t: *const FnTable, pp: *mut ParsedPacket, script: *const u8, script_len: usize, transcript: *mut u8, cap: usize, len: *mut usize) -> i32;
    fn driver_sizeof_fntable() -> usize;
    fn driver_offsetof_abi_version() -> usize;
    fn driver_abi_version_constant() -> u64;
    fn driver_entry_count() -> usize;
}

pub fn def() -> PropDef {
    PropDef {
        id: "C15",
        rule: "every hook script of <=2 (thorough <=3) table calls from a set of initial packets, generated state-dependently so that the table's documented preconditions hold (iterator handles only inside their callback, typed accessors not on EDNS handles, rr_ip/set_rr_ip only on address records with a buffer of that family, 256-byte name buffers): all getters/setters, iter_* with per-record callback programs on every record index, add_to_* with good and bad text, raw_packet with capacities {0, len-1, len, 8192}, question, raw_name_from_str, rename; C transcript == native transcript, final object == native object, canaries around every out-buffer intact; table layout (size, entry count, abi_version offset and value) compared; distinct classes = (step kinds, outcome kinds)",
        run,
        replay,
        bounds: |_t| json!({"initial_packets": initial().len(), "script_len": 3, "callback_program_len": 2, "raw_packet_capacities": ["0", "len-1", "len", "8192"]}),
        assumptions: &["undefined behaviour that neither changes a transcript, nor touches a canary (64 bytes before, >=4 KiB after each buffer), nor crashes the process is not detected"],
        budget_s: |t| t.pick(75, 1200),
        exhaustive: true,
        nshards: 16,
        post: |rep, _| {
            let mut v = vec![];
            for need in ["iter", "add", "rename", "raw_packet", "question", "err=1", "swap_power"] {
                if !rep.classes.keys().any(|k| k.contains(need)) {
                    v.push(format!("no explored script with {}", need));
                }
            }
            for (k, n) in rep.extra.iter() {
                if k.starts_with("swap_undetected:") && *n > 0 {
                    v.push(format!("swapping table entries {} changes no explored transcript: the scripts cannot tell them apart", &k[16..]));
                }
            }
            v
        },
    }
}

#[derive(Clone, Debug, PartialEq)]
pub enum CbOp {
    Name,
    RrType,
    RrClass,
    RrTtl,
    SetRrTtl(u32),
    RrIp(u8),
    SetRrIp(Vec<u8>),
    SetRawName(Vec<u8>),
    SetName(Vec<u8>, Vec<u8>),
    Delete,
}

#[derive(Clone, Debug, PartialEq)]
pub enum Step {
    Flags,
    SetFlags(u32),
    Rcode,
    SetRcode(u8),
    Opcode,
    SetOpcode(u8),
    Add(u8, String),
    RawPacket(u16),
    Question,
    RawNameFromStr(Vec<u8>),
    Rename(Vec<u8>, Vec<u8>, bool),
    Iter { sec: u8, target: u8, stop: bool, ops: Vec<CbOp> },
}

fn step_kind(s: &Step) -> &'static str {
    match s {
        Step::Flags | Step::Rcode | Step::Opcode => "get",
        Step::SetFlags(_) | Step::SetRcode(_) | Step::SetOpcode(_) => "set",
        Step::Add(..) => "add",
        Step::RawPacket(_) => "raw_packet",
        Step::Question => "question",
        Step::RawNameFromStr(_) => "name_from_str",
        Step::Rename(..) => "rename",
        Step::Iter { sec: 4, .. } => "iter_edns",
        Step::Iter { .. } => "iter",
    }
}

fn encode_script(steps: &[Step]) -> Vec<u8> {
    let mut b = vec![];
    for s in steps {
        match s {
            Step::Flags => b.push(0x01),
            Step::SetFlags(v) => {
                b.push(0x02);
                b.extend_from_slice(&v.to_le_bytes());
            }
            Step::Rcode => b.push(0x03),
            Step::SetRcode(v) => b.extend_from_slice(&[0x04, *v]),
            Step::Opcode => b.push(0x05),
            Step::SetOpcode(v) => b.extend_from_slice(&[0x06, *v]),
            Step::Add(sec, t) => {
                b.extend_from_slice(&[0x07, *sec]);
                b.extend_from_slice(&(t.len() as u16).to_le_bytes());
                b.extend_from_slice(t.as_bytes());
            }
            Step::RawPacket(cap) => {
                b.push(0x08);
                b.extend_from_slice(&cap.to_le_bytes());
            }
            Step::Question => b.push(0x09),
            Step::RawNameFromStr(n) => {
                b.extend_from_slice(&[0x0a, n.len() as u8]);
                b.extend_from_slice(n);
            }
            Step::Rename(t, s, m) => {
                b.extend_from_slice(&[0x0b, t.len() as u8]);
                b.extend_from_slice(t);
                b.push(s.len() as u8);
                b.extend_from_slice(s);
                b.push(*m as u8);
            }
            Step::Iter { sec, target, stop, ops } => {
                let mut o = vec![];
                for c in ops {
                    match c {
                        CbOp::Name => o.push(0x20),
                        CbOp::RrType => o.push(0x21),
                        CbOp::RrClass => o.push(0x22),
                        CbOp::RrTtl => o.push(0x23),
                        CbOp::SetRrTtl(v) => {
                            o.push(0x24);
                            o.extend_from_slice(&v.to_le_bytes());
                        }
                        CbOp::RrIp(cap) => o.extend_from_slice(&[0x25, *cap]),
                        CbOp::SetRrIp(a) => {
                            o.extend_from_slice(&[0x26, a.len() as u8]);
                            o.extend_from_slice(a);
                        }
                        CbOp::SetRawName(n) => {
                            o.extend_from_slice(&[0x27, n.len() as u8]);
                            o.extend_from_slice(n);
                        }
                        CbOp::SetName(n, z) => {
                            o.extend_from_slice(&[0x28, n.len() as u8]);
                            o.extend_from_slice(n);
                            o.push(z.len() as u8);
                            o.extend_from_slice(z);
                        }
                        CbOp::Delete => o.push(0x29),
                    }
                }
                assert!(o.len() < 65536);
                b.extend_from_slice(&[0x0c, *sec, *target, *stop as u8, o.len() as u8, (o.len() >> 8) as u8]);
                b.extend_from_slice(&o);
            }
        }
    }
    b
}

// ---------------------------------------------------------------------------------------------
// native interpreter (mirrors cdriver/driver.c's transcript format)

struct Tr(Vec<u8>);
impl Tr {
    fn p8(&mut self, v: u8) {
        self.0.push(v)
    }
    fn p16(&mut self, v: u16) {
        self.0.extend_from_slice(&v.to_le_bytes())
    }
    fn p32(&mut self, v: u32) {
        self.0.extend_from_slice(&v.to_le_bytes())
    }
    fn rc<E: std::fmt::Display>(&mut self, r: Result<(), E>) {
        match r {
            Ok(()) => self.p32(0),
            Err(e) => {
                self.p32(0xffff_ffff);
                let s = e.to_string();
                self.p16(s.len() as u16);
                self.0.extend_from_slice(s.as_bytes());
            }
        }
    }
}

fn native_cb(item: &mut ResponseIterator<'_>, ops: &[CbOp], t: &mut Tr) {
    for c in ops {
        match c {
            CbOp::Name => {
                t.p8(0x20);
                let n = item.name();
                t.p16(n.len() as u16);
                t.0.extend_from_slice(&n);
            }
            CbOp::RrType => {
                t.p8(0x21);
                t.p16(item.rr_type());
            }
            CbOp::RrClass => {
                t.p8(0x22);
                t.p16(item.rr_class());
            }
            CbOp::RrTtl => {
                t.p8(0x23);
                t.p32(item.rr_ttl());
            }
            CbOp::SetRrTtl(v) => {
                t.p8(0x24);
                item.set_rr_ttl(*v);
            }
            CbOp::RrIp(_) => {
                t.p8(0x25);
                match item.rr_ip().expect("precondition: address record") {
                    IpAddr::V4(a) => {
                        t.p8(4);
                        t.0.extend_from_slice(&a.octets());
                    }
                    IpAddr::V6(a) => {
                        t.p8(16);
                        t.0.extend_from_slice(&a.octets());
                    }
                }
            }
            CbOp::SetRrIp(a) => {
                t.p8(0x26);
                let ip = if a.len() == 4 {
                    IpAddr::V4(std::net::Ipv4Addr::new(a[0], a[1], a[2], a[3]))
                } else {
                    let mut o = [0u8; 16];
                    o.copy_from_slice(a);
                    IpAddr::V6(std::net::Ipv6Addr::from(o))
                };
                item.set_rr_ip(&ip).expect("precondition: matching family");
            }
            CbOp::SetRawName(n) => {
                t.p8(0x27);
                let r = item.set_raw_name(n);
                t.rc(r);
            }
            CbOp::SetName(n, z) => {
                t.p8(0x28);
                let zone = if z.is_empty() { None } else { Some(&z[..]) };
                match r#gen::raw_name_from_str(n, zone) {
                    Err(e) => t.rc::<Error>(Err(e)),
                    Ok(raw) => {
                        let r = item.set_raw_name(&raw);
                        t.rc(r);
                    }
                }
            }
            CbOp::Delete => {
                t.p8(0x29);
                let r = item.delete();
                t.rc(r);
            }
        }
    }
}

pub fn native_run(pp: &mut ParsedPacket, steps: &[Step]) -> Vec<u8> {
    let mut t = Tr(vec![]);
    for s in steps {
        match s {
            Step::Flags => {
                t.p8(0x01);
                t.p32(pp.flags());
            }
            Step::SetFlags(v) => {
                t.p8(0x02);
                pp.set_flags(*v);
            }
            Step::Rcode => {
                t.p8(0x03);
                t.p8(pp.rcode());
            }
            Step::SetRcode(v) => {
                t.p8(0x04);
                pp.set_rcode(*v);
            }
            Step::Opcode => {
                t.p8(0x05);
                t.p8(pp.opcode());
            }
            Step::SetOpcode(v) => {
                t.p8(0x06);
                pp.set_opcode(*v);
            }
            Step::Add(sec, text) => {
                t.p8(0x07);
                let section = match sec {
                    0 => Section::Question,
                    1 => Section::Answer,
                    2 => Section::NameServers,
                    _ => Section::Additional,
                };
                let r = pp.insert_rr_from_string(section, text);
                t.rc(r);
            }
            Step::RawPacket(cap) => {
                t.p8(0x08);
                let p = pp.packet();
                if p.len() > *cap as usize {
                    t.p32(0xffff_ffff);
                } else {
                    t.p32(0);
                    t.p32(p.len() as u32);
                    let p = p.to_vec();
                    t.0.extend_from_slice(&p);
                }
            }
            Step::Question => {
                t.p8(0x09);
                match pp.question() {
                    None => {
                        t.p32(0xffff_ffff);
                        t.p16(0);
                        t.p16(0);
                    }
                    Some((name, ty, _)) => {
                        t.p32(0);
                        t.p16(name.len() as u16);
                        t.0.extend_from_slice(&name);
                        t.p16(ty);
                    }
                }
            }
            Step::RawNameFromStr(n) => {
                t.p8(0x0a);
                match r#gen::raw_name_from_str(n, None) {
                    Err(e) => t.rc::<Error>(Err(e)),
                    Ok(raw) => {
                        t.p32(0);
                        t.p16(raw.len() as u16);
                        t.0.extend_from_slice(&raw);
                    }
                }
            }
            Step::Rename(tn, sn, m) => {
                t.p8(0x0b);
                let r = pp.rename_with_raw_names(tn, sn, *m);
                t.rc(r);
            }
            Step::Iter { sec, target, stop, ops } => {
                t.p8(0x0c);
                let mut counter = 0u8;
                if *sec == 4 {
                    let mut it = pp.into_iter_edns();
                    while let Some(item) = it {
                        t.p8(0xCB);
                        t.p8(counter);
                        counter += 1;
                        it = item.next();
                    }
                } else {
                    let mut it = match sec {
                        1 => pp.into_iter_answer(),
                        2 => pp.into_iter_nameservers(),
                        _ => pp.into_iter_additional(),
                    };
                    while let Some(mut item) = it {
                        t.p8(0xCB);
                        t.p8(counter);
                        let mut brk = false;
                        if counter == *target {
                            native_cb(&mut item, ops, &mut t);
                            brk = *stop;
                        }
                        counter += 1;
                        if brk {
                            break;
                        }
                        it = item.next();
                    }
                }
                t.p8(0xCE);
                t.p8(counter);
            }
        }
    }
    t.0
}

pub fn c_run(table: &FnTable, pp: &mut ParsedPacket, steps: &[Step]) -> Result<Vec<u8>, i32> {
    let script = encode_script(steps);
    let mut tr = vec![0u8; 1 << 18];
    let mut len = 0usize;
    let rc = unsafe { driver_run(table, pp, script.as_ptr(), script.len(), tr.as_mut_ptr(), tr.len(), &mut len) };
    if rc != 0 {
        return Err(rc);
    }
    tr.truncate(len);
    Ok(tr)
}

// ---------------------------------------------------------------------------------------------
// script generation (state dependent, so that the table's preconditions hold)

pub fn initial() -> Vec<Vec<u8>> {
    crate::bfs::initial_states_d(Tier::Quick, false)
        .into_iter()
        .filter(|(_, d)| *d == usize::MAX) // the BFS's full-depth initial packets only
        .filter_map(|(i, _)| match i {
            crate::bfs::Init::Packet(p) => Some(p),
            _ => None,
        })
        .enumerate()
        .filter(|(i, _)| i % 3 != 2) // Max and Plain encodings of each message
        .map(|(i, mut p)| {
            if i % 2 == 1 {
                p[2] |= 0x10; // opcode 2
                p[3] |= 0x03; // rcode 3
            }
            p
        })
        .chain(std::iter::once({
            // root question and root-owned records (names read back as the empty string)
            let mut m = base_msg(&vec![0u8], T_NS, true);
            m.an.push(name_rec(&vec![0u8], T_NS, 5, &nm("a.root-servers.net")));
            m.an.push(a_rec(&nm("a.root-servers.net"), 6, [198, 41, 0, 4]));
            m.ar.push(a_rec(&vec![0u8], 7, [1, 1, 1, 1]));
            encode(&m, Strategy::Max)
        }))
        .chain(std::iter::once(aligned_pointer_packets()[5].clone()))
        .collect()
}

fn cb_programs(rec: &Rec) -> Vec<Vec<CbOp>> {
    let mut v = vec![
        vec![CbOp::Name, CbOp::RrType],
        vec![CbOp::RrClass, CbOp::RrTtl],
        vec![CbOp::SetRrTtl(0xdead_beef), CbOp::RrTtl],
        vec![CbOp::SetRawName(nm("new.x")), CbOp::Name],
        vec![CbOp::SetRawName(name_of_wire_len(255)), CbOp::Name],
        vec![CbOp::SetRawName(name_of_wire_len(254)), CbOp::Name],
        vec![CbOp::SetRawName(vec![1, 1, 0])],
        vec![CbOp::SetRawName(vec![1, b'a'])],
        vec![CbOp::SetName(b"Host.Example".to_vec(), vec![]), CbOp::Name],
        vec![CbOp::SetName(b"www".to_vec(), nm("zone.test")), CbOp::Name],
        vec![CbOp::SetName(b"a..b".to_vec(), vec![])],
        vec![CbOp::SetName(b"www.abs.".to_vec(), nm("zone.test")), CbOp::Name],
        vec![CbOp::SetName(b".".to_vec(), nm("zone.test")), CbOp::Name],
        vec![CbOp::SetName(b"".to_vec(), nm("zone.test")), CbOp::Name],
        vec![CbOp::SetName(b"nul\0in..name".to_vec(), vec![]), CbOp::Name],
        vec![CbOp::SetName(b"nul\0ok".to_vec(), nm("zone.test")), CbOp::Name],
        // read, change, read, change to another value of the same size, read: whatever the table remembers
        // about a record between two calls of one callback must follow the changes
        vec![CbOp::Name, CbOp::SetRawName(nm("new.x")), CbOp::Name, CbOp::SetRawName(nm("old.y")), CbOp::Name],
        vec![CbOp::Name, CbOp::SetName(b"aa.bb".to_vec(), vec![]), CbOp::Name, CbOp::SetName(b"cc.dd".to_vec(), vec![]), CbOp::Name, CbOp::RrType],
        vec![CbOp::RrTtl, CbOp::SetRrTtl(1), CbOp::RrTtl, CbOp::SetRrTtl(2), CbOp::RrTtl, CbOp::RrClass],
        vec![CbOp::RrType, CbOp::SetRawName(nm("new.x")), CbOp::RrType, CbOp::RrClass, CbOp::RrTtl, CbOp::Name],
        vec![CbOp::Delete],
        vec![CbOp::Delete, CbOp::Delete],
        vec![CbOp::Delete, CbOp::SetRawName(nm("x"))],
        vec![],
    ];
    // the record's present owner once more: with the case of every letter flipped, and as text
    // in capitals (a change the lowercase name accessor cannot show, the packet bytes can)
    if rec.owner.len() > 1 && rec.owner.len() <= 255 {
        let mut flipped = rec.owner.clone();
        let mut i = 0;
        while i < flipped.len() && flipped[i] != 0 {
            let l = flipped[i] as usize;
            for b in flipped[i + 1..i + 1 + l].iter_mut() {
                if b.is_ascii_alphabetic() {
                    *b ^= 0x20;
                }
            }
            i += 1 + l;
        }
        v.push(vec![CbOp::SetRawName(flipped), CbOp::Name]);
        let text = refmodel::msg::dotted(&rec.owner);
        if text.bytes().all(|b| b.is_ascii_alphanumeric() || b == b'.' || b == b'-' || b == b'_') {
            v.push(vec![CbOp::SetName(text.to_ascii_uppercase().into_bytes(), vec![]), CbOp::Name]);
        }
    }
    if rec.rtype == T_A {
        v.push(vec![CbOp::RrIp(4)]);
        v.push(vec![CbOp::RrIp(32)]);
        v.push(vec![CbOp::SetRrIp(vec![9, 8, 7, 6]), CbOp::RrIp(16)]);
        v.push(vec![CbOp::RrIp(4), CbOp::SetRrIp(vec![9, 8, 7, 6]), CbOp::RrIp(4), CbOp::SetRrIp(vec![5, 4, 3, 2]), CbOp::RrIp(4)]);
    }
    if rec.rtype == T_AAAA {
        v.push(vec![CbOp::RrIp(16)]);
        v.push(vec![CbOp::SetRrIp((1..=16).collect()), CbOp::RrIp(200)]);
        // ::, ::1, an IPv4-mapped and an IPv4-compatible address
        v.push(vec![CbOp::SetRrIp(vec![0; 16]), CbOp::RrIp(16)]);
        v.push(vec![CbOp::SetRrIp({ let mut a = vec![0u8; 16]; a[15] = 1; a }), CbOp::RrIp(16)]);
        v.push(vec![CbOp::SetRrIp(vec![0, 0, 0, 0, 0, 0, 0, 0, 0, 0, 0xff, 0xff, 192, 0, 2, 1]), CbOp::RrIp(16)]);
        v.push(vec![CbOp::SetRrIp(vec![0, 0, 0, 0, 0, 0, 0, 0, 0, 0, 0, 0, 192, 0, 2, 1]), CbOp::RrIp(16)]);
    }
    v
}

pub fn steps_for(bytes: &[u8]) -> Vec<Step> {
    let d = match decode(bytes) {
        Ok(d) => d,
        Err(_) => return vec![],
    };
    let m = &d.msg;
    let has_recs = !m.an.is_empty() || !m.ns.is_empty();
    let qr = m.flags & 0x8000 != 0;
    let mut v = vec![Step::Flags, Step::Rcode, Step::Opcode, Step::SetFlags(0xffff_ffff), Step::SetRcode(0xfe), Step::SetOpcode(0x1d), Step::Question, Step::RawNameFromStr(b"Www.Example.COM".to_vec()), Step::RawNameFromStr(b"a..b".to_vec()), Step::RawNameFromStr(b"".to_vec()), Step::RawNameFromStr(b"nul\0in..name".to_vec()), Step::RawNameFromStr(b"nul\0ok".to_vec()), Step::RawNameFromStr(b"caf\xe9.\xff".to_vec())];
    if !has_recs {
        v.push(Step::SetFlags(0x0100));
    }
    if bytes.len() <= 8192 {
        let l = bytes.len() as u16;
        for cap in [0u16, l - 1, l, 8192] {
            v.push(Step::RawPacket(cap));
        }
    }
    for (sec, ok) in [(1u8, qr), (2, qr), (3, true)] {
        if ok {
            v.push(Step::Add(sec, "x.y. 77 IN A 1.2.3.4".into()));
            if sec != 2 {
                // same length, other record: the driver hands every text over in one and the same buffer
                v.push(Step::Add(sec, "x.z. 78 IN A 4.3.2.1".into()));
            }
            v.push(Step::Add(sec, "b.a. 5 IN MX 3 mail.b.a.".into()));
        }
    }
    v.push(Step::Add(1, "not a record".into()));
    v.push(Step::Add(3, "x. 4294967296 IN A 1.2.3.4".into()));
    if !m.q.is_empty() {
        v.push(Step::Add(0, "x. 1 IN A 1.2.3.4".into())); // second question: must fail
        v.push(Step::Rename(nm("z.y"), nm("b.a"), true));
        v.push(Step::Rename(nm("k"), nm("nomatch"), false));
        v.push(Step::Rename(name_of_wire_len(252), nm("a"), true));
        v.push(Step::Rename(vec![], nm("a"), true));
        // target and source equal, and equal up to case: nothing to rename, still a full call
        v.push(Step::Rename(nm("B.A"), nm("b.a"), true));
        v.push(Step::Rename(nm("b.a"), nm("b.a"), false));
    }
    for (sec, recs) in [(1u8, m.an.clone()), (2, m.ns.clone()), (3, m.ar.iter().filter(|r| r.rtype != T_OPT).cloned().collect::<Vec<_>>())] {
        for (i, rec) in recs.iter().enumerate().take(3) {
            for p in cb_programs(rec) {
                for stop in [false, true] {
                    if stop && p.len() != 1 {
                        continue;
                    }
                    v.push(Step::Iter { sec, target: i as u8, stop, ops: p.clone() });
                }
            }
        }
        v.push(Step::Iter { sec, target: 200, stop: false, ops: vec![] });
    }
    v.push(Step::Iter { sec: 4, target: 0, stop: false, ops: vec![] });
    v
}

// ---------------------------------------------------------------------------------------------

fn steps_json(steps: &[Step]) -> Value {
    json!(steps.iter().map(|s| format!("{:?}", s)).collect::<Vec<_>>())
}

/// runs one script both ways; Ok(class) or Err((sig, what))
pub fn check_script(table: &FnTable, init: &[u8], steps: &[Step]) -> Result<String, (String, String)> {
    let mut ppn = crate::subj::parse(init).map_err(|e| ("setup".to_string(), e))?;
    let native = caught(|| native_run(&mut ppn, steps));
    let native = match native {
        Ok(t) => t,
        Err(p) => return Ok(format!("native_panic({})", panic_site(&p))), // no native behaviour to be faithful to
    };
    let sn: Snap = snap(&ppn);
    let mut ppc = crate::subj::parse(init).unwrap();
    let c = c_run(table, &mut ppc, steps);
    let c = match c {
        Ok(t) => t,
        Err(code) => {
            let what = match code {
                101 | 103 | 106 | 107 | 108 | 112 => "a table call wrote outside the caller's buffer (canary damaged)",
                102 | 109 => "a name is not NUL-terminated within 256 bytes",
                104 => "rr_ip reported an address length that is neither 4 nor 16",
                105 | 113 => "a reported length exceeds the caller's capacity",
                120 => "abi_version differs from the header's constant",
                _ => "driver error",
            };
            return Err((format!("c_side:{}", code), format!("{} (driver code {})", what, code)));
        }
    };
    if c != native {
        let pos = c.iter().zip(native.iter()).position(|(a, b)| a != b).unwrap_or(c.len().min(native.len()));
        return Err(("transcript_differs".into(), format!("C transcript differs from the native one at byte {}: C {} native {}", pos, hex(&c[pos.saturating_sub(4)..(pos + 24).min(c.len())]), hex(&native[pos.saturating_sub(4)..(pos + 24).min(native.len())]))));
    }
    let sc = snap(&ppc);
    if sc != sn {
        return Err(("final_state_differs".into(), "after the script the object driven from C differs from the natively driven one".into()));
    }
    let has_err = native.windows(4).any(|w| w == [0xff, 0xff, 0xff, 0xff]);
    Ok(format!("{} err={}", steps.iter().map(step_kind).collect::<Vec<_>>().join(">"), has_err as u8))
}

fn run(ctx: &mut Ctx, rep: &mut Report) {
    let table = fn_table();
    // layout
    if ctx.shard == 0 {
        let (cs, co, ca, cn) = unsafe { (driver_sizeof_fntable(), driver_offsetof_abi_version(), driver_abi_version_constant(), driver_entry_count()) };
        let rs = std::mem::size_of::<FnTable>();
        let ro = {
            let base = &table as *const FnTable as usize;
            &table.abi_version as *const u64 as usize - base
        };
        rep.class(&format!("layout size={} entries={}", cs, cn));
        if cs != rs || co != ro || cn != 29 || ca != table.abi_version {
            rep.violation("layout", format!("table layout differs: C sizeof {} offsetof(abi_version) {} entries {} ABI {} / Rust sizeof {} offset {} ABI {}", cs, co, cn, ca, rs, ro, table.abi_version), json!({"kind": "layout"}));
        }
        if cfg!(c_hook_header_rename_by_value) {
            rep.violation("header:rename_with_raw_names_takes_names_by_value", "c_hook.h declares rename_with_raw_names(..., const uint8_t raw_target_name, ..., const uint8_t raw_source_name, ...): a hook compiled against the header cannot pass the name pointers the table entry expects (-Werror=int-conversion)".into(), json!({"kind": "header_probe"}));
        }
    }
    let inits = initial();
    let depth = 3;
    let mut gi = 0u64;
    // grids of single calls of the entries that do not depend on the packet's state: every text length 1..=255
    // with and without a final dot through raw_name_from_str
    {
        let mut names: Vec<Vec<u8>> = vec![];
        for len in 1..=255usize {
            // (the script encoding holds a name's length in one byte) labels of 50 bytes separated by dots; the last label takes the rest
            let mut t: Vec<u8> = vec![];
            while t.len() < len {
                if t.len() % 51 == 50 {
                    t.push(b'.');
                } else {
                    t.push(b'a' + (t.len() % 23) as u8);
                }
            }
            if t.last() == Some(&b'.') {
                let l = t.len();
                t[l - 1] = b'z';
            }
            names.push(t.clone());
            let mut d = t.clone();
            let l = d.len();
            d[l - 1] = b'.';
            if l >= 2 && d[l - 2] != b'.' {
                names.push(d);
            }
        }
        // labels of 60..65 characters, alone and before / after another label
        for l in 60..=65usize {
            let lab: Vec<u8> = std::iter::repeat(b'l').take(l).collect();
            names.push(lab.clone());
            let mut a = lab.clone();
            a.extend_from_slice(b".tail");
            names.push(a);
            let mut b = b"head.".to_vec();
            b.extend_from_slice(&lab);
            b.push(b'.');
            names.push(b);
        }
        for (k, n) in names.into_iter().enumerate() {
            gi += 1;
            if !ctx.mine(gi) {
                continue;
            }
            let script = vec![Step::RawNameFromStr(n)];
            rep.transitions += 1;
            rep.evaluations += 1;
            rep.states += 1;
            match check_script(&table, &inits[0], &script) {
                Ok(c) => rep.class(&c),
                Err((sig, what)) => rep.violation(&sig, what, json!({"kind": "script", "initial": hex(&inits[0]), "initial_index": 0, "steps": steps_json(&script), "script_hex": hex(&encode_script(&script)), "grid": k})),
            }
        }
    }
    // a packet just below the 8192-byte insertion limit: every script of up to two steps (renames and insertions
    // that take it across the limit, then every reader)
    {
        let big = {
            let mut m = base_msg(&nm("b.a"), T_A, true);
            m.an.push(a_rec(&nm("b.a"), 60, [1, 2, 3, 4]));
            m.ns.push(name_rec(&nm("a"), T_NS, 7, &nm("ns.b.a")));
            let used = encode(&m, Strategy::Plain).len();
            m.ar.push(Rec { owner: nm("a"), rtype: 99, class: 1, ttl: 0, rdata: Rdata::Opaque(vec![0x42; 8150 - used - 13]) });
            encode(&m, Strategy::Plain)
        };
        for s1 in steps_for(&big) {
            gi += 1;
            if !ctx.mine(gi) || ctx.timed_out() {
                continue;
            }
            let mut scripts = vec![vec![s1.clone()]];
            let mut pp = crate::subj::parse(&big).unwrap();
            if caught(|| native_run(&mut pp, &[s1.clone()])).is_ok() {
                if let Some(b) = &pp.packet {
                    if crate::bfs_exec::view_check(&snap(&pp)).is_ok() {
                        for s2 in steps_for(b) {
                            if matches!(s2, Step::Flags | Step::Question | Step::RawPacket(_) | Step::Rename(..) | Step::Add(..)) || matches!(&s2, Step::Iter { ops, .. } if ops.len() <= 1) {
                                scripts.push(vec![s1.clone(), s2]);
                            }
                        }
                    }
                }
            }
            for script in scripts {
                rep.transitions += script.len() as u64;
                rep.evaluations += 1;
                rep.states += 1;
                match check_script(&table, &big, &script) {
                    Ok(c) => rep.class(&c),
                    Err((sig, what)) => rep.violation(&sig, what, json!({"kind": "script", "initial": hex(&big), "initial_index": 99, "steps": steps_json(&script), "script_hex": hex(&encode_script(&script))})),
                }
            }
        }
    }
    'outer: for (ii, init) in inits.iter().enumerate() {
        let s1s = steps_for(init);
        for s1 in &s1s {
            gi += 1;
            if !ctx.mine(gi) {
                continue;
            }
            if ctx.timed_out() {
                rep.cap("time budget reached".into());
                break 'outer;
            }
            let mut stack: Vec<Vec<Step>> = vec![vec![s1.clone()]];
            while let Some(script) = stack.pop() {
                if ctx.journaling() {
                    ctx.journal(|| json!({"kind": "script", "initial": hex(init), "steps": steps_json(&script), "script_hex": hex(&encode_script(&script))}));
                }
                rep.transitions += script.len() as u64;
                rep.evaluations += 1;
                rep.states += 1;
                match check_script(&table, init, &script) {
                    Ok(c) => {
                        rep.class(&c);
                        if rep.samples.len() < MAX_SAMPLES && rep.evaluations % 5003 == 0 {
                            rep.sample(|| json!({"initial": hex(init), "steps": steps_json(&script), "class": c}));
                        }
                        // quick tier: three steps from the first three initial packets, two from the others
                        let depth = if ctx.tier == Tier::Quick && ii >= 3 { 2 } else { depth };
                        if script.len() < depth && !c.starts_with("native_panic") {
                            // successor alphabet from the state the native run reaches
                            let mut pp = crate::subj::parse(init).unwrap();
                            let _ = native_run(&mut pp, &script);
                            if let Some(b) = &pp.packet {
                                if crate::bfs_exec::view_check(&snap(&pp)).is_ok() {
                                    for s2 in steps_for(b) {
                                        // keep depth-3 affordable: the third step is a reader or a mutation of another kind
                                        if ctx.tier == Tier::Quick && script.len() == 2 && !matches!(s2, Step::Flags | Step::Question | Step::RawPacket(_) | Step::Iter { .. }) {
                                            continue;
                                        }
                                        let mut n = script.clone();
                                        n.push(s2);
                                        stack.push(n);
                                    }
                                }
                            }
                        }
                    }
                    Err((sig, what)) => rep.violation(&sig, what, json!({"kind": "script", "initial": hex(init), "initial_index": ii, "steps": steps_json(&script), "script_hex": hex(&encode_script(&script))})),
                }
            }
        }
    }
    // thorough: a stride of the explored scripts is re-run under valgrind memcheck (one extra process)
    if ctx.shard == 1 && ctx.tier == Tier::Thorough && !ctx.journaling() {
        valgrind_pass(rep, 20000);
    }
    // power of the behavioural order check: swapping two same-typed entries must change some transcript
    if ctx.shard == 0 {
        let swaps: Vec<(&str, Box<dyn Fn(&mut FnTable)>)> = vec![
            ("rcode/opcode", Box::new(|t| std::mem::swap(&mut t.rcode, &mut t.opcode))),
            ("set_rcode/set_opcode", Box::new(|t| std::mem::swap(&mut t.set_rcode, &mut t.set_opcode))),
            ("iter_answer/iter_nameservers", Box::new(|t| std::mem::swap(&mut t.iter_answer, &mut t.iter_nameservers))),
            ("iter_nameservers/iter_additional", Box::new(|t| std::mem::swap(&mut t.iter_nameservers, &mut t.iter_additional))),
            ("rr_type/rr_class", Box::new(|t| std::mem::swap(&mut t.rr_type, &mut t.rr_class))),
            ("add_to_answer/add_to_nameservers", Box::new(|t| std::mem::swap(&mut t.add_to_answer, &mut t.add_to_nameservers))),
            ("add_to_nameservers/add_to_additional", Box::new(|t| std::mem::swap(&mut t.add_to_nameservers, &mut t.add_to_additional))),
            ("add_to_question/add_to_answer", Box::new(|t| std::mem::swap(&mut t.add_to_question, &mut t.add_to_answer))),
        ];
        for (name, f) in swaps {
            let mut t2 = fn_table();
            f(&mut t2);
            let mut detected = 0u64;
            for init in inits.iter() {
                for s in steps_for(init) {
                    // swapped entries keep their C types; steps whose preconditions depend on the record
                    // under the cursor (address accessors) are left out, since a swapped iterator visits other records
                    if let Step::Iter { ops, .. } = &s {
                        if ops.iter().any(|o| matches!(o, CbOp::RrIp(_) | CbOp::SetRrIp(_))) {
                            continue;
                        }
                    }
                    if ctx.journaling() {
                        ctx.journal(|| json!({"kind": "swap", "swap": name, "initial": hex(init), "script_hex": hex(&encode_script(&[s.clone()]))}));
                    }
                    if let Err(_) = check_script(&t2, init, &[s]) {
                        detected += 1;
                    }
                }
            }
            rep.class(&format!("swap_power {} detected_by>0={}", name, (detected > 0) as u8));
            rep.bump(&format!("swap_detected:{}", name), detected);
            if detected == 0 {
                rep.bump(&format!("swap_undetected:{}", name), 1);
            }
        }
    }
}

/// Runs about `n` explored scripts (a deterministic stride over all scripts of <= 2 steps) in this one
/// process; meant to be executed under valgrind, whose exit code is the verdict.
pub fn batch_main(n: usize) {
    install_panic_hook();
    let table = fn_table();
    let inits = initial();
    let mut all: Vec<(usize, Vec<Step>)> = vec![];
    for (ii, init) in inits.iter().enumerate() {
        for s1 in steps_for(init) {
            all.push((ii, vec![s1.clone()]));
            let mut pp = crate::subj::parse(init).unwrap();
            if caught(|| native_run(&mut pp, &[s1.clone()])).is_err() {
                continue;
            }
            if let Some(b) = &pp.packet {
                if crate::bfs_exec::view_check(&snap(&pp)).is_ok() {
                    for s2 in steps_for(b) {
                        all.push((ii, vec![s1.clone(), s2]));
                    }
                }
            }
        }
    }
    let stride = (all.len() / n.max(1)).max(1);
    let mut ran = 0;
    let mut bad = 0;
    for (k, (ii, script)) in all.iter().enumerate() {
        if k % stride != 0 {
            continue;
        }
        ran += 1;
        if check_script(&table, &inits[*ii], script).is_err() {
            bad += 1;
        }
    }
    println!("c15-batch: {} of {} scripts run, {} transcript violations", ran, all.len(), bad);
}

fn valgrind_pass(rep: &mut Report, n: usize) {
    let exe = match std::env::current_exe() {
        Ok(e) => e,
        Err(_) => return,
    };
    let out = std::process::Command::new("valgrind")
        .args(["-q", "--error-exitcode=9", "--errors-for-leak-kinds=none", "--leak-check=no"])
        .arg(&exe)
        .args(["c15-batch", &n.to_string()])
        .env_remove("RUST_BACKTRACE")
        .output();
    match out {
        Err(e) => rep.notes.push(format!("valgrind not run: {}", e)),
        Ok(o) => {
            let text = format!("{}{}", String::from_utf8_lossy(&o.stdout), String::from_utf8_lossy(&o.stderr));
            let line = text.lines().find(|l| l.starts_with("c15-batch")).unwrap_or("").to_string();
            rep.notes.push(format!("valgrind memcheck pass: exit {:?}; {}", o.status.code(), line));
            rep.class("valgrind pass");
            if o.status.code() == Some(9) {
                let first: String = text.lines().filter(|l| l.starts_with("==")).take(12).collect::<Vec<_>>().join(" | ");
                rep.violation("valgrind:memory_error", format!("valgrind memcheck reports an invalid access while the table is driven from C: {}", first), json!({"kind": "valgrind", "n": n}));
            } else if o.status.code() != Some(0) {
                rep.notes.push(format!("valgrind run ended abnormally ({:?}): no verdict from it", o.status));
            }
        }
    }
}

fn parse_steps(v: &Value) -> Option<Vec<u8>> {
    v["script_hex"].as_str().map(unhex)
}

/// decodes a script byte string back into steps (inverse of encode_script)
fn decode_script(b: &[u8]) -> Vec<Step> {
    let mut v = vec![];
    let mut i = 0;
    let take = |i: &mut usize, n: usize| -> Vec<u8> {
        let r = b[*i..*i + n].to_vec();
        *i += n;
        r
    };
    while i < b.len() {
        let op = b[i];
        i += 1;
        v.push(match op {
            0x01 => Step::Flags,
            0x02 => Step::SetFlags(u32::from_le_bytes(take(&mut i, 4).try_into().unwrap())),
            0x03 => Step::Rcode,
            0x04 => Step::SetRcode(take(&mut i, 1)[0]),
            0x05 => Step::Opcode,
            0x06 => Step::SetOpcode(take(&mut i, 1)[0]),
            0x07 => {
                let sec = take(&mut i, 1)[0];
                let l = u16::from_le_bytes(take(&mut i, 2).try_into().unwrap()) as usize;
                Step::Add(sec, String::from_utf8_lossy(&take(&mut i, l)).to_string())
            }
            0x08 => Step::RawPacket(u16::from_le_bytes(take(&mut i, 2).try_into().unwrap())),
            0x09 => Step::Question,
            0x0a => {
                let l = take(&mut i, 1)[0] as usize;
                Step::RawNameFromStr(take(&mut i, l))
            }
            0x0b => {
                let l = take(&mut i, 1)[0] as usize;
                let t = take(&mut i, l);
                let l = take(&mut i, 1)[0] as usize;
                let s = take(&mut i, l);
                Step::Rename(t, s, take(&mut i, 1)[0] != 0)
            }
            _ => {
                let h = take(&mut i, 5);
                let ops_b = take(&mut i, h[3] as usize | ((h[4] as usize) << 8));
                let mut ops = vec![];
                let mut j = 0;
                while j < ops_b.len() {
                    let o = ops_b[j];
                    j += 1;
                    ops.push(match o {
                        0x20 => CbOp::Name,
                        0x21 => CbOp::RrType,
                        0x22 => CbOp::RrClass,
                        0x23 => CbOp::RrTtl,
                        0x24 => {
                            j += 4;
                            CbOp::SetRrTtl(u32::from_le_bytes(ops_b[j - 4..j].try_into().unwrap()))
                        }
                        0x25 => {
                            j += 1;
                            CbOp::RrIp(ops_b[j - 1])
                        }
                        0x26 => {
                            let l = ops_b[j] as usize;
                            j += 1 + l;
                            CbOp::SetRrIp(ops_b[j - l..j].to_vec())
                        }
                        0x27 => {
                            let l = ops_b[j] as usize;
                            j += 1 + l;
                            CbOp::SetRawName(ops_b[j - l..j].to_vec())
                        }
                        0x28 => {
                            let l = ops_b[j] as usize;
                            j += 1 + l;
                            let n = ops_b[j - l..j].to_vec();
                            let zl = ops_b[j] as usize;
                            j += 1 + zl;
                            CbOp::SetName(n, ops_b[j - zl..j].to_vec())
                        }
                        _ => CbOp::Delete,
                    });
                }
                Step::Iter { sec: h[0], target: h[1], stop: h[2] != 0, ops }
            }
        });
    }
    v
}

fn replay(case: &Value) -> Result<String, String> {
    match case["kind"].as_str() {
        Some("layout") => {
            let table = fn_table();
            let cs = unsafe { driver_sizeof_fntable() };
            if cs != std::mem::size_of::<FnTable>() || unsafe { driver_entry_count() } != 29 || unsafe { driver_abi_version_constant() } != table.abi_version {
                Err("table layout differs between the header and the library".into())
            } else {
                Ok("layout agrees".into())
            }
        }
        Some("valgrind") => {
            let mut rep = Report::default();
            valgrind_pass(&mut rep, case["n"].as_u64().unwrap_or(2000) as usize);
            for n in &rep.notes {
                println!("{}", n);
            }
            match rep.violations.first() {
                Some(v) => Err(v.what.clone()),
                None => Ok("valgrind reports no invalid access".into()),
            }
        }
        Some("header_probe") => {
            if cfg!(c_hook_header_rename_by_value) {
                Err("c_hook.h declares the name arguments of rename_with_raw_names by value; a hook passing pointers does not compile with -Werror".into())
            } else {
                Ok("a hook passing name pointers to rename_with_raw_names compiles against the header".into())
            }
        }
        _ => {
            let init = unhex(case["initial"].as_str().unwrap_or(""));
            let steps = decode_script(&parse_steps(case).ok_or("no script")?);
            println!("initial: {}", hex(&init));
            for s in &steps {
                println!("  step {:?}", s);
            }
            check_script(&fn_table(), &init, &steps).map_err(|(s, w)| format!("[{}] {}", s, w))
        }
    }
}
