//! C14: host names convert between text and wire form without loss.

use crate::engine::*;
use crate::PropDef;
use dnssector::*;
use refmodel::gen::*;
use refmodel::msg::*;
use refmodel::text::*;
use refmodel::wire::*;
use serde_json::{json, Value};

pub fn def() -> PropDef {
    PropDef {
        id: "C14",
        rule: "every byte string over {a,A,1,-,_,.,\\,0x01,0x80,0x81} up to length n x {no zone, zone example.com, zone = root} through raw_name_from_str; accepted names additionally set as a record's owner (set_raw_name) and read back with name(); length grids: labels 61..64, totals 250..256, with/without trailing dot and zone; distinct classes = (statement class, accepted, zone, read-back done)",
        run,
        replay,
        bounds: |t| json!({"alphabet": "a A 1 - _ . \\ 0x01 0x80 0x81", "max_len": t.pick(6, 7), "zones": ["none", "example.com", "a"], "label_grid": [61, 62, 63, 64], "total_grid": "248..258"}),
        assumptions: &["the empty string and '.' are outside the statement's classes; labels holding characters the record-name policy forbids are converted (class unspecified) but the read-back clause only applies when set_raw_name accepts them"],
        budget_s: |t| t.pick(50, 600),
        exhaustive: true,
        nshards: 16,
        post: |rep, _| {
            let mut v = vec![];
            for need in ["MustAccept acc=1", "MustReject acc=0", "Unspecified acc=1", "Unspecified acc=0", "zone=1", "readback=1"] {
                if !rep.classes.keys().any(|k| k.contains(need)) {
                    v.push(format!("no explored name of class {}", need));
                }
            }
            v
        },
    }
}

const ALPHA: &[u8] = &[b'a', b'A', b'1', b'-', b'_', b'.', b'\\', 0x01, 0x80, 0x81];

fn zones() -> Vec<Option<Name>> {
    vec![None, Some(nm("example.com")), Some(nm("a"))]
}

fn host() -> Vec<u8> {
    let mut m = base_msg(&nm("q.test"), T_A, true);
    m.an.push(name_rec(&nm("q.test"), T_CNAME, 4, &nm("x.q.test")));
    m.an.push(name_rec(&nm("x.q.test"), T_CNAME, 4, &nm("q.test")));
    m.an.push(a_rec(&nm("old.test"), 5, [1, 2, 3, 4]));
    m.ar.push(opt_variants()[1].clone());
    encode(&m, Strategy::Max)
}

pub fn check_name(name: &[u8], zi: usize) -> Result<String, (String, String)> {
    let zone = zones()[zi].clone();
    let class = classify_name(name, zone.as_deref());
    let r = caught(|| r#gen::raw_name_from_str(name, zone.as_deref()).map_err(|e| e.to_string()));
    let shown = || String::from_utf8_lossy(name).to_string();
    let got = match r {
        Err(p) => return Err((format!("raw_name_from_str:panic:{}", panic_site(&p)), format!("raw_name_from_str panicked on {:?}: {}", shown(), p))),
        Ok(r) => r,
    };
    match (&got, class) {
        (Err(e), NameClass::MustAccept) => return Err(("must_accept_rejected".into(), format!("{:?} (zone {:?}) must be accepted but: {}", shown(), zone.as_ref().map(|z| dotted(z)), e))),
        (Ok(w), NameClass::MustReject) => return Err(("must_reject_accepted".into(), format!("{:?} (zone {:?}) must be rejected but converts to {}", shown(), zone.as_ref().map(|z| dotted(z)), hex(w)))),
        _ => {}
    }
    let mut readback = 0;
    if let Ok(w) = &got {
        let exp = expected_wire(name, zone.as_deref());
        if !is_plain_name(w) {
            return Err(("result_not_a_wire_name".into(), format!("{:?} converts to {} which is not a well-formed pointer-free name of at most 255 bytes", shown(), hex(w))));
        }
        if *w != exp {
            return Err(("labels_differ".into(), format!("{:?} converts to {} but its labels are {}", shown(), hex(w), hex(&exp))));
        }
        // give the name to a record and read it back
        let h = host();
        let mut pp = crate::subj::parse(&h).unwrap();
        let rb = caught(|| -> Result<Option<Vec<u8>>, String> {
            // the third answer: compressed owners before it make decompression move it
            let it = pp.into_iter_answer().ok_or("no answer")?;
            let it = it.next().ok_or("no second answer")?;
            let mut it = it.next().ok_or("no third answer")?;
            match it.set_raw_name(w) {
                Ok(()) => Ok(Some(it.name())),
                Err(_) => Ok(None),
            }
        });
        match rb {
            Err(p) => return Err((format!("set_raw_name:panic:{}", panic_site(&p)), format!("set_raw_name panicked with the converted name {}: {}", hex(w), p))),
            Ok(Err(e)) => return Err(("setup".into(), e)),
            Ok(Ok(None)) => {
                if class == NameClass::MustAccept {
                    return Err(("converted_name_refused".into(), format!("the converted form of {:?} is refused by set_raw_name", shown())));
                }
            }
            Ok(Ok(Some(text))) => {
                readback = 1;
                let mut want: Vec<u8> = dotted_lower(&exp);
                // dotted_lower escapes a literal '.' inside a label; names here never contain one
                if want != text {
                    return Err(("readback_differs".into(), format!("{:?} reads back as {:?}, expected {:?}", shown(), String::from_utf8_lossy(&text), String::from_utf8_lossy(&want))));
                }
                want.clear();
                if crate::subj::parse(pp.packet()).is_err() {
                    return Err(("readback_packet_rejected".into(), "after giving the record the converted name the packet is rejected by the parser".into()));
                }
            }
        }
        // the question of a pointer-free packet whose present question name has the SAME wire length, after
        // the question has been looked at once (its memo is filled); read back through question()
        if w.len() > 1 {
            let mut same: Vec<u8> = w.clone();
            let mut o = 0;
            while same[o] != 0 {
                let l = same[o] as usize;
                for b in same[o + 1..o + 1 + l].iter_mut() {
                    *b = b'q';
                }
                o += 1 + l;
            }
            let mut m = base_msg(&same, refmodel::wire::T_A, true);
            m.an.push(a_rec(&same, 5, [1, 2, 3, 4]));
            let hq = encode(&m, Strategy::Plain);
            for settled in [false, true] {
            let rb = caught(|| -> Result<Option<Vec<u8>>, String> {
                let mut pp = crate::subj::parse(&hq).map_err(|e| e.to_string())?;
                if settled {
                    // the packet is known to be pointer-free (no decompression will precede the change)
                    pp.recompute().map_err(|e| e.to_string())?;
                }
                let _ = pp.question_raw0();
                let _ = pp.question();
                let ok = {
                    let mut it = pp.into_iter_question().ok_or("no question")?;
                    it.set_raw_name(w).is_ok()
                };
                Ok(if ok { pp.question().map(|q| q.0) } else { None })
            });
            match rb {
                Err(p) => return Err((format!("set_raw_name:panic:{}", panic_site(&p)), format!("set_raw_name on the question panicked with the converted name {}: {}", hex(w), p))),
                Ok(Err(e)) => return Err(("setup".into(), e)),
                Ok(Ok(None)) => {}
                Ok(Ok(Some(text))) => {
                    let want: Vec<u8> = dotted_lower(&exp);
                    if want != text {
                        return Err(("readback_differs".into(), format!("the question given {:?} reads back through question() as {:?}, expected {:?}", shown(), String::from_utf8_lossy(&text), String::from_utf8_lossy(&want))));
                    }
                }
            }
            }
        }
    }
    Ok(format!("{:?} acc={} zone={} readback={}", class, got.is_ok() as u8, zone.is_some() as u8, readback))
}

fn run(ctx: &mut Ctx, rep: &mut Report) {
    let n = ctx.tier.pick(6, 7);
    let tails = Tails { alphabet: ALPHA, max_len: n };
    let total = tails.count();
    let mut buf = vec![];
    let mut gi = 0u64;
    let one = |ctx: &mut Ctx, rep: &mut Report, name: &[u8], zi: usize| {
        if ctx.journaling() {
            ctx.journal(|| json!({"name_hex": hex(name), "zone": zi}));
        }
        rep.transitions += 1;
        rep.states += 1;
        match check_name(name, zi) {
            Ok(c) => {
                rep.class(&c);
                if rep.samples.len() < MAX_SAMPLES && rep.transitions % 50021 == 0 {
                    rep.sample(|| json!({"name": String::from_utf8_lossy(name), "zone": zi, "class": c}));
                }
            }
            Err((sig, what)) => rep.violation(&sig, what, json!({"name_hex": hex(name), "zone": zi})),
        }
    };
    for i in 0..total {
        gi += 1;
        if !ctx.mine(gi) {
            continue;
        }
        tails.get(i, &mut buf);
        for zi in 0..zones().len() {
            one(ctx, rep, &buf, zi);
        }
    }
    // length grids
    let mut grid: Vec<Vec<u8>> = vec![];
    for ll in [60usize, 61, 62, 63, 64, 65] {
        for tail in ["", ".", ".b", ".b."] {
            grid.push(format!("{}{}", label_of(ll, 'g'), tail).into_bytes());
            grid.push(format!("x.{}{}", label_of(ll, 'G'), tail).into_bytes());
        }
    }
    for wire in 240..=260usize {
        let base = name_with_wire_len(wire);
        for tail in ["", "."] {
            grid.push(format!("{}{}", base, tail).into_bytes());
        }
    }
    for labels in 1..=64usize {
        for tail in ["", "."] {
            let n: Vec<String> = (0..labels).map(|i| ((b'a' + (i % 26) as u8) as char).to_string()).collect();
            grid.push(format!("{}{}", n.join("."), tail).into_bytes());
        }
    }
    for (i, g) in grid.iter().enumerate() {
        if !ctx.mine(i as u64) {
            continue;
        }
        for zi in 0..zones().len() {
            one(ctx, rep, g, zi);
        }
    }
}

fn replay(case: &Value) -> Result<String, String> {
    let name = unhex(case["name_hex"].as_str().unwrap_or(""));
    let zi = case["zone"].as_u64().unwrap_or(0) as usize;
    println!("name {:?} zone {:?}", String::from_utf8_lossy(&name), zones()[zi].as_ref().map(|z| dotted(z)));
    check_name(&name, zi).map_err(|(s, w)| format!("[{}] {}", s, w))
}
