//! C03: every accepted packet reads back completely and faithfully via the iterators.

use crate::engine::*;
use crate::subj::{self, check_rdata, check_typed};
use crate::PropDef;
use dnssector::*;
use refmodel::gen::*;
use refmodel::msg::*;
use refmodel::wire::*;
use serde_json::{json, Value};

pub fn def() -> PropDef {
    PropDef {
        id: "C03",
        rule: "every message of the L3 universe (names x record menu x <=k records x OPT at every position) under every encoding strategy, plus every accepted packet of the L2/L4/L5 families, is walked with every iterator, and the public unchecked name readers (copy_uncompressed_name, raw_name_len, raw_name_len_after_decompression, raw_name_to_str) are compared with the reference at every name position; distinct outcome classes = (OPT position, pointer use, non-empty sections, record-type set)",
        run,
        replay,
        bounds,
        assumptions: &["refmodel::msg::decode is the RFC 1035 reading of the bytes"],
        budget_s: |t| t.pick(50, 900),
        exhaustive: true,
        nshards: 16,
        post: |rep, _| {
            let mut v = vec![];
            for need in ["opt=first", "opt=middle", "opt=last", "opt=none", "ptr=1", "ptr=0"] {
                if !rep.classes.keys().any(|k| k.contains(need)) {
                    v.push(format!("no explored packet with {}", need));
                }
            }
            v
        },
    }
}

fn params(t: Tier) -> (usize, usize, usize) {
    // (names used, record-menu level, max records)
    t.pick((4, 1, 2), (5, 1, 3))
}

fn bounds(t: Tier) -> Value {
    let (n, level, k) = params(t);
    json!({"names": std_names()[..n].iter().map(|n| dotted(n)).collect::<Vec<_>>(), "record_menu_level": level,
           "max_records": k, "opt_variants": 3, "strategies": format!("{:?}", ALL_STRATEGIES),
           "plus": "accepted packets of L2 product, L4 damage closure, L5 pointer chains 0..16"})
}

pub struct Fail {
    pub sig: String,
    pub what: String,
}

fn fail(sig: &str, what: String) -> Fail {
    Fail { sig: sig.to_string(), what }
}

fn opt_pos(m: &Msg) -> &'static str {
    match m.ar.iter().position(|r| r.rtype == T_OPT) {
        None => "none",
        Some(0) if m.ar.len() == 1 => "only",
        Some(0) => "first",
        Some(i) if i + 1 == m.ar.len() => "last",
        Some(_) => "middle",
    }
}

fn walk_section(pp: &mut ParsedPacket, x: &[u8], d: &Decoded, sec: Sec, incl_opt: bool) -> Result<(), Fail> {
    let tag = format!("{:?}{}", sec, if incl_opt { "+opt" } else { "" });
    let recs = d.msg.sec(sec);
    let base: usize = match sec {
        Sec::Answer => 0,
        Sec::Authority => d.msg.an.len(),
        _ => d.msg.an.len() + d.msg.ns.len(),
    };
    let expected: Vec<usize> = (0..recs.len()).filter(|&i| incl_opt || recs[i].rtype != T_OPT).collect();
    let r = caught(|| -> Result<(), Fail> {
        let mut it = match (sec, incl_opt) {
            (Sec::Answer, _) => pp.into_iter_answer(),
            (Sec::Authority, _) => pp.into_iter_nameservers(),
            (_, false) => pp.into_iter_additional(),
            (_, true) => pp.into_iter_additional_including_opt(),
        };
        for (k, &i) in expected.iter().enumerate() {
            let item = match it {
                Some(item) => item,
                None => return Err(fail(&format!("walk:{}:ended_early", tag), format!("walk over {} ended after {} of {} records", tag, k, expected.len()))),
            };
            let sp = &d.spans[base + i];
            let rec = &recs[i];
            check_typed(&item, &rec.owner, rec.rtype, rec.class, sec, sp.start, sp.end).map_err(|e| fail(&format!("walk:{}:accessor", tag), format!("record {} of {}: {}", i, tag, e)))?;
            check_slices(&item, x, sp.start, sp.name_end).map_err(|e| fail(&format!("walk:{}:accessor", tag), format!("record {} of {}: {}", i, tag, e)))?;
            check_rdata(&item, rec, &x[sp.name_end + 10..sp.end]).map_err(|e| fail(&format!("walk:{}:rdata_accessor", tag), format!("record {} of {}: {}", i, tag, e)))?;
            it = if incl_opt { item.next_including_opt() } else { item.next() };
        }
        if it.is_some() {
            return Err(fail(&format!("walk:{}:extra_record", tag), format!("walk over {} yields more than the {} records present", tag, expected.len())));
        }
        Ok(())
    });
    match r {
        Ok(r) => r,
        Err(p) => Err(fail(&format!("walk:{}:panic:{}", tag, panic_site(&p)), format!("walk over {} panicked: {}", tag, p))),
    }
}

/// the raw views of the record an iterator stands on
fn check_slices<T: DNSIterable>(it: &T, x: &[u8], start: usize, name_end: usize) -> Result<(), String> {
    let raw = it.raw();
    if raw.offset != start || raw.name_end != name_end || raw.packet != x {
        return Err(format!("raw() = offset {} name_end {} over {} bytes, reference: {} / {} over {} bytes", raw.offset, raw.name_end, raw.packet.len(), start, name_end, x.len()));
    }
    if it.name_slice() != &x[start..name_end] {
        return Err(format!("name_slice() has {} bytes, the name field is {}..{}", it.name_slice().len(), start, name_end));
    }
    if it.rdata_slice() != &x[name_end..] {
        return Err(format!("rdata_slice() has {} bytes, expected the {} bytes after the name field", it.rdata_slice().len(), x.len() - name_end));
    }
    if it.packet() != x || it.is_tombstone() {
        return Err("packet() differs from the input or the record claims to be deleted".into());
    }
    Ok(())
}

pub fn check_packet(x: &[u8]) -> Result<String, Fail> {
    let d = decode(x).expect("generator produced an undecodable packet");
    let mut pp = match subj::parse(x) {
        Ok(p) => p,
        Err(_) => return Ok("parser_rejected(C02's business)".into()),
    };
    // question
    let r = caught(|| -> Result<(), Fail> {
        let q = &d.msg.q[0];
        let sp = d.qspan.as_ref().unwrap();
        match pp.into_iter_question() {
            None => Err(fail("walk:Question:ended_early", "question walk yields nothing".into())),
            Some(it) => {
                check_typed(&it, &q.name, q.qtype, q.qclass, Sec::Question, sp.start, sp.end).map_err(|e| fail("walk:Question:accessor", e))?;
                check_slices(&it, x, sp.start, sp.name_end).map_err(|e| fail("walk:Question:accessor", e))?;
                if it.next().is_some() {
                    return Err(fail("walk:Question:extra_record", "question walk yields a second record".into()));
                }
                Ok(())
            }
        }
    });
    match r {
        Ok(r) => r?,
        Err(p) => return Err(fail(&format!("walk:Question:panic:{}", panic_site(&p)), format!("question walk panicked: {}", p))),
    }
    // the same question walk once the question memo is filled (question_raw0 / question)
    let r = caught(|| -> Result<(), Fail> {
        let _ = pp.question_raw0();
        let _ = pp.question();
        let q = &d.msg.q[0];
        let sp = d.qspan.as_ref().unwrap();
        match pp.into_iter_question() {
            None => Err(fail("walk:Question:ended_early", "question walk yields nothing once the question memo is filled".into())),
            Some(it) => {
                check_typed(&it, &q.name, q.qtype, q.qclass, Sec::Question, sp.start, sp.end).map_err(|e| fail("walk:Question:accessor", format!("with the question memo filled: {}", e)))?;
                check_slices(&it, x, sp.start, sp.name_end).map_err(|e| fail("walk:Question:accessor", format!("with the question memo filled: {}", e)))?;
                Ok(())
            }
        }
    });
    match r {
        Ok(r) => r?,
        Err(p) => return Err(fail(&format!("walk:Question:panic:{}", panic_site(&p)), format!("question walk panicked once the question memo was filled: {}", p))),
    }
    walk_section(&mut pp, x, &d, Sec::Answer, false)?;
    walk_section(&mut pp, x, &d, Sec::Authority, false)?;
    walk_section(&mut pp, x, &d, Sec::Additional, false)?;
    walk_section(&mut pp, x, &d, Sec::Additional, true)?;
    // EDNS options
    let v = view(x, &d);
    let r = caught(|| -> Result<(), Fail> {
        let mut it = pp.into_iter_edns();
        if let Some(mut o) = v.offset_edns {
            for k in 0..v.edns_count {
                let item = match it {
                    Some(i) => i,
                    None => return Err(fail("walk:Edns:ended_early", format!("EDNS walk ended after {} of {} options", k, v.edns_count))),
                };
                let l = be16(x, o + 2) as usize;
                if item.offset() != Some(o) || item.offset_next() != o + 4 + l {
                    return Err(fail("walk:Edns:accessor", format!("option {}: offset {:?}..{} expected {}..{}", k, item.offset(), item.offset_next(), o, o + 4 + l)));
                }
                let raw = item.raw();
                if raw.name_end != o || raw.packet != x || item.rdata_slice()[..4 + l] != x[o..o + 4 + l] {
                    return Err(fail("walk:Edns:accessor", format!("option {}: raw view differs from the wire bytes", k)));
                }
                o += 4 + l;
                it = item.next();
            }
        }
        if it.is_some() {
            return Err(fail("walk:Edns:extra_record", "EDNS walk yields more options than present".into()));
        }
        Ok(())
    });
    match r {
        Ok(r) => r?,
        Err(p) => return Err(fail(&format!("walk:Edns:panic:{}", panic_site(&p)), format!("EDNS walk panicked: {}", p))),
    }
    name_primitives(x, &d)?;
    if pp.packet() != x {
        return Err(fail("bytes_changed", "reading through the iterators altered the packet bytes".into()));
    }
    let mut types: Vec<u16> = d.msg.all_recs().map(|r| type_bucket(r.rtype)).collect();
    types.sort();
    types.dedup();
    Ok(format!(
        "opt={} ptr={} secs={}{}{} edns={} types={:?}",
        opt_pos(&d.msg),
        !d.pointer_free as u8,
        (!d.msg.an.is_empty()) as u8,
        (!d.msg.ns.is_empty()) as u8,
        (!d.msg.ar.is_empty()) as u8,
        v.edns_count.min(2),
        types
    ))
}

/// The public unchecked name readers (documented for validated input) on every name position of the accepted
/// packet: the question name, every owner, every name inside NS/CNAME/PTR/DNAME/MX/SOA data.
fn name_primitives(x: &[u8], d: &Decoded) -> Result<(), Fail> {
    let mut starts: Vec<usize> = vec![];
    if let Some(q) = &d.qspan {
        starts.push(q.start);
    }
    for (sp, rec) in d.spans.iter().zip(d.msg.all_recs()) {
        starts.push(sp.start);
        let rd = sp.name_end + 10;
        if rd >= sp.end {
            continue;
        }
        match rec.rtype {
            T_NS | T_CNAME | T_PTR | 39 => starts.push(rd),
            T_MX if rd + 2 < sp.end => starts.push(rd + 2),
            T_SOA => {
                starts.push(rd);
                if let Ok((_, e, _)) = expand_lenient(x, rd) {
                    if e < sp.end {
                        starts.push(e);
                    }
                }
            }
            _ => {}
        }
    }
    for s in starts {
        let (name, end, _) = match expand_lenient(x, s) {
            Ok(t) => t,
            Err(_) => continue,
        };
        let r = caught(|| -> Result<(), String> {
            let mut out = vec![0xEEu8; 2];
            let res = Compress::copy_uncompressed_name(&mut out, x, s);
            if out[..2] != [0xEE; 2] || out[2..] != name[..] || res.name_len != name.len() || res.final_offset != end {
                return Err(format!("copy_uncompressed_name at {}: appended {} bytes, name_len {}, final_offset {}; the name there has {} bytes and its field ends at {}", s, out.len() - 2, res.name_len, res.final_offset, name.len(), end));
            }
            let l = Compress::raw_name_len_after_decompression(x, s);
            if l != name.len() {
                return Err(format!("raw_name_len_after_decompression at {} = {}, the expanded name has {} bytes", s, l, name.len()));
            }
            let l = Compress::raw_name_len(&x[s..]);
            if l != end - s {
                return Err(format!("raw_name_len at {} = {}, the name field occupies {} bytes", s, l, end - s));
            }
            let t = Compress::raw_name_to_str(x, s);
            if t.to_ascii_lowercase() != dotted_lower(&name) || t.iter().filter(|c| c.is_ascii_uppercase()).count() != name.iter().filter(|c| c.is_ascii_uppercase()).count() {
                return Err(format!("raw_name_to_str at {} = {:?}, the name there is {:?}", s, String::from_utf8_lossy(&t), dotted(&name)));
            }
            Ok(())
        });
        match r {
            Ok(Ok(())) => {}
            Ok(Err(e)) => return Err(fail("name_reader", e)),
            Err(p) => return Err(fail(&format!("name_reader:panic:{}", panic_site(&p)), format!("a name reader panicked at offset {}: {}", s, p))),
        }
    }
    Ok(())
}

fn one(ctx: &mut Ctx, rep: &mut Report, x: &[u8]) {
    if ctx.journaling() {
        ctx.journal(|| json!({"input": hex(x)}));
    }
    rep.transitions += 1;
    rep.states += 1;
    match check_packet(x) {
        Ok(c) => {
            rep.class(&c);
            if rep.samples.len() < MAX_SAMPLES && x.len() > 60 && rep.transitions % 977 == 0 {
                rep.sample(|| json!({"input": hex(x), "message": describe(&decode(x).unwrap().msg), "class": c}));
            }
        }
        Err(f) => rep.violation(&f.sig, f.what, json!({"input": hex(x)})),
    }
}

fn run(ctx: &mut Ctx, rep: &mut Report) {
    let (nn, level, k) = params(ctx.tier);
    let names: Vec<Name> = std_names()[..nn].to_vec();
    let menu = rec_menu(&names, level);
    let opts = opt_variants();
    let qnames = if k >= 3 { vec![names[2].clone()] } else { vec![names[2].clone(), names[0].clone()] };
    let shard = ctx.shard as u64;
    let nsh = ctx.nshards as u64;
    let ctxp: *mut Ctx = ctx;
    let repp: *mut Report = rep;
    messages(&qnames, &menu, &opts, k, &|g| g % nsh == shard, |m| {
        let (ctx, rep) = unsafe { (&mut *ctxp, &mut *repp) };
        if ctx.timed_out() {
            rep.cap("time budget reached inside the L3 universe".into());
            return;
        }
        for s in ALL_STRATEGIES.iter() {
            let x = encode(m, *s);
            debug_assert!(wf(&x).is_ok());
            one(ctx, rep, &x);
        }
    });
    all_types_packets(false, |i, p| {
        let (ctx, rep) = unsafe { (&mut *ctxp, &mut *repp) };
        if ctx.mine(i) {
            one(ctx, rep, p);
        }
    });
    accepted_low_level(ctx.tier.pick(0, 1), |i, p| {
        let (ctx, rep) = unsafe { (&mut *ctxp, &mut *repp) };
        if ctx.mine(i) {
            one(ctx, rep, p);
        }
    });
}

fn replay(case: &Value) -> Result<String, String> {
    let x = unhex(case["input"].as_str().unwrap_or(""));
    println!("input: {}", hex(&x));
    if let Ok(d) = decode(&x) {
        println!("message: {}", describe(&d.msg));
    }
    match check_packet(&x) {
        Ok(c) => Ok(c),
        Err(f) => Err(format!("[{}] {}", f.sig, f.what)),
    }
}
