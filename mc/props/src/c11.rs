//! C11: deleting records while iterating is safe, exact and terminates.
//! Stateless exploration: every string over {delete, next} (a second delete right after a delete
//! is the "delete again" action) is executed from a fresh cursor; prefixes whose walk has ended are
//! not extended; after the string the walk is driven to its end with next().

use crate::bfs_exec::{designates, sec_base, view_check, Cur};
use crate::bfs_model::{sec_name, snap};
use crate::engine::*;
use crate::PropDef;
use refmodel::gen::*;
use refmodel::msg::*;
use refmodel::wire::*;
use serde_json::{json, Value};

pub fn def() -> PropDef {
    PropDef {
        id: "C11",
        rule: "for every section content of size 0..n in answer/authority/additional (OPT absent/first/middle/last, walked with and without OPT) and the question, compressed and pointer-free: every action string over {delete, next} up to length 3n+2 (prefix-closed; strings are cut where the walk ends) is executed on a fresh real cursor and then driven to the end of the walk; distinct classes = (section, OPT position, size, deletions performed, double deletes, restarts)",
        run,
        replay,
        bounds: |t| json!({"max_section_size": t.pick(4, 5), "max_string_len": "3n+2", "strategies": ["Max", "Plain"], "opt_positions": ["none", "first", "middle", "last"]}),
        assumptions: &["both cursor protocols after a deletion (restart from the section start, or continue) satisfy the oracle, which is about sets of yielded records"],
        budget_s: |t| t.pick(50, 900),
        exhaustive: true,
        nshards: 16,
        post: |rep, _| {
            let mut v = vec![];
            for need in ["sec=question", "sec=additional", "opt=middle", "del=0", "del=all", "dbl=1", "n=0 "] {
                if !rep.classes.keys().any(|k| k.contains(need)) {
                    v.push(format!("no explored walk with {}", need));
                }
            }
            v
        },
    }
}

#[derive(Clone, Copy, PartialEq, Debug)]
enum Act {
    D,
    N,
}

struct Case {
    bytes: Vec<u8>,
    sec: Sec,
    incl_opt: bool,
    tag: String,
    /// before the walk. 1: clear the pointer flag (bytes are pointer-free) and memoise the question;
    /// 2: delete the question (the walk then runs on a packet without a question section)
    prep: u8,
}

fn sub(owner: &Name) -> Name {
    let mut n = vec![1, b'c'];
    n.extend_from_slice(owner);
    n
}

fn rec_i(i: usize, owner: &Name) -> Rec {
    let ttl = 100 + i as u32;
    match i % 5 {
        0 => a_rec(owner, ttl, [10, 0, 0, i as u8]),
        1 => name_rec(owner, T_CNAME, ttl, &sub(owner)),
        2 => mx_rec(owner, ttl, 5, owner),
        3 => aaaa_rec(&sub(owner), ttl, [i as u8; 16]),
        _ => a_rec(owner, ttl, [10, 0, 1, i as u8]),
    }
}

fn cases(max_n: usize) -> Vec<Case> {
    let mut v = vec![];
    // short names, and long ones (decompression then moves every later record by tens of bytes,
    // so offsets taken before and after it cannot be confused without being noticed)
    for (ba, long) in [(nm("b.a"), false), (nm("host.subdomain.example.com"), true)] {
    for strat in [Strategy::Max, Strategy::Plain, Strategy::RdataOnly] {
        if long && strat == Strategy::Plain {
            continue;
        }
        for n in 0..=max_n {
            for sec in [Sec::Answer, Sec::Authority, Sec::Additional] {
                let opt_positions: Vec<Option<usize>> = if sec == Sec::Additional {
                    let mut p = vec![None, Some(0)];
                    if n >= 1 {
                        p.push(Some(n));
                    }
                    if n >= 2 {
                        p.push(Some(1));
                    }
                    p
                } else {
                    vec![None]
                };
                for op in opt_positions {
                    let mut m = base_msg(&ba, T_A, true);
                    // neighbours in other sections so that offsets of later sections matter
                    if sec != Sec::Answer {
                        m.an.push(a_rec(&ba, 1, [1, 1, 1, 1]));
                    }
                    if sec != Sec::Additional {
                        m.ar.push(a_rec(&nm("a"), 2, [2, 2, 2, 2]));
                        m.ar.push(opt_variants()[1].clone());
                    }
                    for i in 0..n {
                        m.sec_mut(sec).push(rec_i(i, &ba));
                    }
                    if let Some(p) = op {
                        m.ar.insert(p, opt_variants()[2].clone());
                    }
                    let optname = match op {
                        None => "none",
                        Some(0) => "first",
                        Some(p) if p == n => "last",
                        _ => "middle",
                    };
                    let incls: Vec<bool> = if sec == Sec::Additional { vec![false, true] } else { vec![false] };
                    for incl in incls {
                        v.push(Case { bytes: encode(&m, strat), sec, incl_opt: incl, prep: 0, tag: format!("sec={}{} opt={} n={} ptr={} long={}", sec_name(sec), if incl { "+opt" } else { "" }, optname, n, (strat != Strategy::Plain) as u8, long as u8) });
                    }
                }
            }
        }
        // the question
        let mut m = base_msg(&sub(&ba), T_A, true);
        m.an.push(name_rec(&sub(&ba), T_CNAME, 1, &ba));
        m.ns.push(name_rec(&ba, T_NS, 1, &sub(&ba)));
        m.ar.push(a_rec(&ba, 3, [3, 3, 3, 3]));
        m.ar.push(opt_variants()[1].clone());
        v.push(Case { bytes: encode(&m, strat), sec: Sec::Question, incl_opt: false, prep: 0, tag: format!("sec=question opt=last n=1 ptr={}", (strat == Strategy::Max) as u8) });
        if strat == Strategy::Plain {
            v.push(Case { bytes: encode(&m, strat), sec: Sec::Question, incl_opt: false, prep: 1, tag: "sec=question opt=last n=1 ptr=0 memo=1".to_string() });
            v.push(Case { bytes: encode(&m, strat), sec: Sec::Answer, incl_opt: false, prep: 1, tag: "sec=answer opt=last n=1 ptr=0 memo=1".to_string() });
        }
    }
    }
    // the root as question name and as owner name (5-byte question, 11-byte records)
    {
        let root = vec![0u8];
        let mut m = base_msg(&root, T_NS, true);
        m.an.push(a_rec(&root, 100, [1, 2, 3, 4]));
        m.an.push(name_rec(&root, T_NS, 101, &nm("a.root-servers.net")));
        m.ns.push(name_rec(&root, T_NS, 102, &nm("b.root-servers.net")));
        m.ar.push(opt_variants()[0].clone());
        for strat in [Strategy::Max, Strategy::Plain] {
            for (sec, n) in [(Sec::Question, 1usize), (Sec::Answer, 2), (Sec::Authority, 1)] {
                v.push(Case { bytes: encode(&m, strat), sec, incl_opt: false, prep: 0, tag: format!("sec={} opt=last n={} ptr={} root=1", sec_name(sec), n, (strat != Strategy::Plain) as u8) });
            }
        }
    }
    // a question name written through the header bytes, followed by compressed records
    {
        let mut p = vec![2, b'a', 0x84, 0, 0, 1, 0, 2, 0, 1, 0, 1, 0xc0, 0, 0, 1, 0, 1];
        p.extend_from_slice(&[0xc0, 0, 0, 1, 0, 1, 0, 0, 0, 100, 0, 4, 1, 1, 1, 1]);
        p.extend_from_slice(&[1, b'w', 0xc0, 0, 0, 5, 0, 1, 0, 0, 0, 101, 0, 2, 0xc0, 0]);
        p.extend_from_slice(&[0xc0, 0, 0, 2, 0, 1, 0, 0, 0, 102, 0, 4, 1, b'n', 0xc0, 0]);
        p.extend_from_slice(&[0xc0, 34, 0, 1, 0, 1, 0, 0, 0, 103, 0, 4, 2, 2, 2, 2]);
        assert!(wf(&p).is_ok(), "{:?}", wf(&p));
        for (sec, n) in [(Sec::Question, 1usize), (Sec::Answer, 2), (Sec::Authority, 1), (Sec::Additional, 1)] {
            v.push(Case { bytes: p.clone(), sec, incl_opt: false, prep: 0, tag: format!("sec={} opt=none n={} ptr=1 header=1", sec_name(sec), n) });
        }
    }
    // SOA data whose names are reached through two and more pointer hops (the first deletion expands them)
    for strat in [Strategy::Chain, Strategy::Max, Strategy::Latest] {
        let ba = nm("b.a");
        let ns1 = nm("ns1.b.a");
        let mut m = base_msg(&ba, T_A, true);
        m.an.push(Rec { ttl: 100, ..name_rec(&ba, T_NS, 100, &ns1) });
        m.an.push(Rec { ttl: 101, ..a_rec(&ba, 101, [1, 1, 1, 1]) });
        m.ns.push(Rec { ttl: 110, ..soa_rec(&nm("a"), 110, &ns1, &nm("admin.ns1.b.a")) });
        m.ns.push(Rec { ttl: 111, ..name_rec(&nm("a"), T_NS, 111, &ns1) });
        m.ar.push(Rec { ttl: 120, ..a_rec(&ns1, 120, [2, 2, 2, 2]) });
        m.ar.push(Rec { ttl: 121, ..mx_rec(&ba, 121, 5, &nm("admin.ns1.b.a")) });
        for (sec, n) in [(Sec::Answer, 2usize), (Sec::Authority, 2), (Sec::Additional, 2)] {
            v.push(Case { bytes: encode(&m, strat), sec, incl_opt: false, prep: 0, tag: format!("sec={} opt=none n={} ptr=1 soa_chain={:?}", sec_name(sec), n, strat) });
        }
    }
    // packets beyond 16 KiB: a record that starts below offset 0x4000 and ends above it, or starts exactly at
    // 0x3fff / 0x4000, followed by records whose owners are compressed against its owner
    for tstart in [16360usize, 0x3fff, 0x4000] {
        let tgt = nm("target.example");
        let mut m = base_msg(&nm("b.a"), T_A, true);
        m.an.push(Rec { owner: nm("b.a"), rtype: 99, class: 1, ttl: 100, rdata: Rdata::Opaque(vec![0x42; tstart - 33]) });
        m.an.push(Rec { ttl: 101, ..a_rec(&tgt, 101, [1, 1, 1, 1]) });
        m.an.push(Rec { ttl: 102, ..a_rec(&tgt, 102, [2, 2, 2, 2]) });
        m.an.push(Rec { ttl: 103, ..a_rec(&sub(&tgt), 103, [3, 3, 3, 3]) });
        m.ar.push(Rec { ttl: 120, ..a_rec(&tgt, 120, [4, 4, 4, 4]) });
        let bytes = encode(&m, Strategy::Max);
        debug_assert_eq!(decode(&bytes).unwrap().spans[1].start, tstart);
        v.push(Case { bytes: bytes.clone(), sec: Sec::Answer, incl_opt: false, prep: 0, tag: format!("sec=answer opt=none n=4 ptr=1 big16k={}", tstart) });
        v.push(Case { bytes, sec: Sec::Additional, incl_opt: false, prep: 0, tag: format!("sec=additional opt=none n=1 ptr=1 big16k={}", tstart) });
    }
    // the same walks on a packet whose question was deleted beforehand
    {
        let base = nm("b.a");
        for strat in [Strategy::Plain, Strategy::Max] {
            for optpos in [None, Some(0usize), Some(2)] {
                let mut m = base_msg(&base, T_A, true);
                for i in 0..2 {
                    m.an.push(rec_i(i, &base));
                    m.ns.push(rec_i(10 + i, &base));
                    m.ar.push(rec_i(20 + i, &base));
                }
                if let Some(p) = optpos {
                    m.ar.insert(p, opt_variants()[1].clone());
                }
                for (sec, incl) in [(Sec::Answer, false), (Sec::Authority, false), (Sec::Additional, false), (Sec::Additional, true)] {
                    let n = m.sec(sec).len();
                    v.push(Case { bytes: encode(&m, strat), sec, incl_opt: incl, prep: 2, tag: format!("sec={}{} opt={} n={} ptr={} noq=1", sec_name(sec), if incl { "+opt" } else { "" }, match optpos { None => "none", Some(0) => "first", _ => "last" }, n, (strat != Strategy::Plain) as u8) });
                }
            }
        }
    }
    // packets longer than 256 bytes with names at 256-aligned offsets (hand-assembled, see gen::aligned_pointer_packets)
    let al = aligned_pointer_packets();
    for (i, tag) in [(4usize, "n256"), (5, "n256opt"), (13, "n512opt")] {
        for (sec, incl) in [(Sec::Answer, false), (Sec::Authority, false), (Sec::Additional, false), (Sec::Additional, true)] {
            let n = decode(&al[i]).unwrap().msg.sec(sec).len();
            v.push(Case { bytes: al[i].clone(), sec, incl_opt: incl, prep: 0, tag: format!("sec={}{} opt={} n={} ptr=1 long=1 aligned={}", sec_name(sec), if incl { "+opt" } else { "" }, if i == 4 { "none" } else { "first" }, n, tag) });
        }
    }
    v
}

struct WalkResult {
    alive: bool, // the walk had not ended when the action string was exhausted
    class: String,
}

fn ident(rec: &Rec) -> u32 {
    rec.ttl
}

fn run_walk<T: Cur>(first: Option<T>, sec: Sec, incl_opt: bool, acts: &[Act], x: &[u8]) -> Result<WalkResult, (String, String)> {
    let d0 = decode(x).unwrap();
    let is_q = sec == Sec::Question;
    let original: Vec<u32> = if is_q { vec![0] } else { d0.msg.sec(sec).iter().map(ident).collect() };
    let walkable = |r: &Rec| incl_opt || r.rtype != T_OPT;
    let n0 = original.len();
    let mut deleted: Vec<u32> = vec![];
    let mut yielded: Vec<u32> = vec![];
    let mut it = first;
    let mut dbl = 0;
    let mut restarts = 0;
    let mut yields = 0usize;
    let bound = (n0 + 2) * (n0 + 2) + 4;
    // identify what the live cursor designates in the current bytes
    let whoami = |item: &T| -> Result<(usize, u32), String> {
        let bytes = item.parsed_packet().packet().to_vec();
        let d = decode(&bytes).map_err(|e| format!("bytes undecodable: {:?}", e))?;
        if is_q {
            designates(item, sec, 0)?;
            return Ok((0, 0));
        }
        let base = sec_base(&d, sec);
        for i in 0..d.msg.sec(sec).len() {
            if Some(d.spans[base + i].start) == item.offset() {
                designates(item, sec, i)?;
                return Ok((i, ident(&d.msg.sec(sec)[i])));
            }
        }
        Err(format!("cursor offset {:?} is no record start of the section", item.offset()))
    };
    let mut tomb = false;
    let note_yield = |item: &T, deleted: &Vec<u32>, yielded: &mut Vec<u32>| -> Result<(), (String, String)> {
        let (_, id) = caught(|| whoami(item)).unwrap_or_else(|p| Err(format!("panic: {}", p))).map_err(|e| ("walk:yielded_garbage".to_string(), format!("a yielded cursor designates no record of the section: {}", e)))?;
        if deleted.contains(&id) {
            return Err(("walk:deleted_record_yielded".into(), format!("record with ttl {} was deleted and is yielded again", id)));
        }
        yielded.push(id);
        Ok(())
    };
    if let Some(item) = it.as_ref() {
        note_yield(item, &deleted, &mut yielded)?;
        yields += 1;
    }
    let mut step = 0usize;
    let mut alive_at_end = false;
    loop {
        let act = if step < acts.len() {
            acts[step]
        } else {
            Act::N
        };
        if step == acts.len() {
            alive_at_end = it.is_some();
        }
        if it.is_none() {
            break;
        }
        step += 1;
        match act {
            Act::D => {
                let before = snap(it.as_ref().unwrap().parsed_packet());
                let mb = decode(before.packet.as_ref().unwrap()).unwrap().msg;
                let target = if tomb { None } else { Some(caught(|| whoami(it.as_ref().unwrap())).unwrap_or_else(|p| Err(p)).map_err(|e| ("walk:yielded_garbage".to_string(), e))?) };
                let r = caught(|| it.as_mut().unwrap().delete().map_err(|e| e.to_string()));
                let after = snap(it.as_ref().unwrap().parsed_packet());
                match (target, r) {
                    (_, Err(p)) => return Err((format!("delete:panic:{}", panic_site(&p)), format!("delete panicked: {}", p))),
                    (None, Ok(Ok(()))) => return Err(("delete:second_delete_succeeded".into(), "a second delete through the same cursor succeeded".into())),
                    (None, Ok(Err(_))) => {
                        dbl = 1;
                        if after != before {
                            return Err(("delete:second_delete_changed_something".into(), "a second delete reported an error but changed the object".into()));
                        }
                    }
                    (Some(_), Ok(Err(e))) => return Err(("delete:unexpected_error".into(), format!("delete failed on a live cursor: {}", e))),
                    (Some((i, id)), Ok(Ok(()))) => {
                        let mut exp = mb.clone();
                        if is_q {
                            exp.q.clear();
                        } else {
                            exp.sec_mut(sec).remove(i);
                        }
                        let ma = after.packet.as_ref().and_then(|p| decode(p).ok()).map(|d| d.msg);
                        if ma.as_ref() != Some(&exp) {
                            return Err(("delete:wrong_record_removed".into(), format!("deletion did not remove exactly the record under the cursor: {}", ma.map(|m| refmodel::ops::diff(&exp, &m)).unwrap_or("undecodable".into()))));
                        }
                        deleted.push(id);
                        tomb = true;
                    }
                }
            }
            Act::N => {
                let was_tomb = tomb;
                let r = caught(|| it.take().unwrap().nxt(incl_opt));
                match r {
                    Err(p) => return Err((format!("next:panic:{}", panic_site(&p)), format!("next panicked: {}", p))),
                    Ok(n) => it = n,
                }
                tomb = false;
                if let Some(item) = it.as_ref() {
                    if was_tomb {
                        restarts += 1;
                    }
                    note_yield(item, &deleted, &mut yielded)?;
                    yields += 1;
                    if yields > bound {
                        return Err(("walk:does_not_terminate".into(), format!("more than {} records yielded from a section of {}", bound, n0)));
                    }
                }
            }
        }
    }
    let _ = it;
    Ok(WalkResult {
        alive: alive_at_end,
        class: format!("del={} dbl={} restarts={}", if deleted.len() == n0 && n0 > 0 { "all".to_string() } else { deleted.len().to_string() }, dbl, restarts.min(2)),
    })
    .and_then(|w| {
        // survivors must all have been yielded (only walkable ones), checked by the caller on the final bytes
        let surv: Vec<u32> = if is_q { if deleted.is_empty() { vec![0] } else { vec![] } } else { d0.msg.sec(sec).iter().filter(|r| !deleted.contains(&ident(r))).map(ident).collect() };
        for r in d0.msg.all_recs() {
            let _ = r;
        }
        let must: Vec<u32> = if is_q { surv.clone() } else { d0.msg.sec(sec).iter().filter(|r| !deleted.contains(&ident(r)) && walkable(r)).map(ident).collect() };
        for id in &must {
            if !yielded.contains(id) {
                return Err(("walk:survivor_never_yielded".into(), format!("surviving record with ttl {} was never yielded (yielded: {:?}, deleted: {:?})", id, yielded, deleted)));
            }
        }
        Ok((w, surv))
    })
    .map(|(w, surv)| {
        SURV.with(|s| *s.borrow_mut() = surv);
        w
    })
}

thread_local! {
    static SURV: std::cell::RefCell<Vec<u32>> = const { std::cell::RefCell::new(vec![]) };
}

fn run_case(c: &Case, acts: &[Act]) -> Result<WalkResult, (String, String)> {
    let mut pp = crate::subj::parse(&c.bytes).map_err(|e| ("setup".to_string(), e))?;
    if c.prep == 1 {
        pp.recompute().map_err(|e| ("setup".to_string(), e.to_string()))?;
        let _ = pp.question_raw0();
    }
    if c.prep == 2 {
        let r: Result<Result<(), String>, String> = caught(|| match pp.into_iter_question() {
            Some(mut q) => dnssector::TypedIterable::delete(&mut q).map_err(|e| e.to_string()),
            None => Err("no question".to_string()),
        });
        match r {
            Ok(Ok(())) => {}
            Ok(Err(e)) => return Err(("setup:delete_question".to_string(), e)),
            Err(p) => return Err((format!("setup:panic:{}", panic_site(&p)), p)),
        }
    }
    let base_bytes = pp.packet().to_vec();
    let c = &Case { bytes: base_bytes, sec: c.sec, incl_opt: c.incl_opt, tag: c.tag.clone(), prep: c.prep };
    let d0 = decode(&c.bytes).map_err(|e| ("setup:undecodable".to_string(), format!("{:?}", e)))?;
    let w = {
        let r = caught(|| match c.sec {
            Sec::Question => run_walk(pp.into_iter_question(), c.sec, false, acts, &c.bytes),
            Sec::Answer => run_walk(pp.into_iter_answer(), c.sec, false, acts, &c.bytes),
            Sec::Authority => run_walk(pp.into_iter_nameservers(), c.sec, false, acts, &c.bytes),
            Sec::Additional => {
                if c.incl_opt {
                    run_walk(pp.into_iter_additional_including_opt(), c.sec, true, acts, &c.bytes)
                } else {
                    run_walk(pp.into_iter_additional(), c.sec, false, acts, &c.bytes)
                }
            }
        });
        match r {
            Ok(w) => w?,
            Err(p) => return Err((format!("walk:panic:{}", panic_site(&p)), format!("walk panicked: {}", p))),
        }
    };
    // final state: survivors in original order, matching count, emptied section absent
    let surv = SURV.with(|s| s.borrow().clone());
    let s = snap(&pp);
    let df = decode(s.packet.as_ref().unwrap()).map_err(|e| ("final:undecodable".to_string(), format!("{:?}", e)))?;
    if c.sec == Sec::Question {
        if df.msg.q.len() != surv.len() {
            return Err(("final:question_count".into(), format!("qdcount {} but {} survivors", df.msg.q.len(), surv.len())));
        }
        if surv.is_empty() && (s.oq.is_some() || pp.into_iter_question().is_some()) {
            return Err(("final:emptied_not_absent".into(), "emptied question section still reads as present".into()));
        }
    } else {
        let got: Vec<u32> = df.msg.sec(c.sec).iter().map(ident).collect();
        if got != surv {
            return Err(("final:survivors".into(), format!("section holds ttls {:?}, survivors in original order are {:?}", got, surv)));
        }
        let mut exp = d0.msg.clone();
        exp.sec_mut(c.sec).retain(|r| surv.contains(&ident(r)));
        if df.msg != exp {
            return Err(("final:collateral".into(), format!("something else changed: {}", refmodel::ops::diff(&exp, &df.msg))));
        }
        let off = match c.sec {
            Sec::Answer => s.oa,
            Sec::Authority => s.on,
            _ => s.oad,
        };
        if surv.is_empty() {
            let again = match c.sec {
                Sec::Answer => pp.into_iter_answer().is_some(),
                Sec::Authority => pp.into_iter_nameservers().is_some(),
                _ => pp.into_iter_additional_including_opt().is_some(),
            };
            if off.is_some() || again {
                return Err(("final:emptied_not_absent".into(), "emptied section still reads as present".into()));
            }
        }
    }
    if let Err((sig, wh)) = view_check(&s) {
        return Err((format!("final:{}", sig), wh));
    }
    Ok(w)
}

fn acts_str(a: &[Act]) -> String {
    a.iter().map(|x| if *x == Act::D { 'D' } else { 'N' }).collect()
}

fn explore(c: &Case, ci: usize, prefix: &mut Vec<Act>, maxlen: usize, ctx: &mut Ctx, rep: &mut Report) {
    if ctx.journaling() {
        ctx.journal(|| json!({"input": hex(&c.bytes), "section": sec_name(c.sec), "incl_opt": c.incl_opt, "prep": c.prep, "acts": acts_str(prefix)}));
    }
    rep.transitions += prefix.len() as u64 + 1;
    rep.evaluations += 1;
    rep.states += 1;
    match run_case(c, prefix) {
        Ok(w) => {
            rep.class(&format!("{} {}", c.tag, w.class));
            if rep.samples.len() < MAX_SAMPLES && prefix.len() >= 4 && rep.evaluations % 97 == 0 {
                rep.sample(|| json!({"input": hex(&c.bytes), "section": sec_name(c.sec), "incl_opt": c.incl_opt, "acts": acts_str(prefix), "outcome": w.class}));
            }
            if w.alive && prefix.len() < maxlen && !ctx.timed_out() {
                for a in [Act::D, Act::N] {
                    prefix.push(a);
                    explore(c, ci, prefix, maxlen, ctx, rep);
                    prefix.pop();
                }
            } else if w.alive && prefix.len() < maxlen {
                rep.cap("time budget reached".into());
            }
        }
        Err((sig, what)) => rep.violation(&sig, what, json!({"input": hex(&c.bytes), "section": sec_name(c.sec), "incl_opt": c.incl_opt, "prep": c.prep, "acts": acts_str(prefix)})),
    }
}

fn run(ctx: &mut Ctx, rep: &mut Report) {
    let max_n = ctx.tier.pick(4, 5);
    let cs = cases(max_n);
    // shard on (case, first two actions) so that the big cases spread over workers
    let mut unit = 0u64;
    for (ci, c) in cs.iter().enumerate() {
        let n = decode(&c.bytes).unwrap().msg;
        let n = if c.sec == Sec::Question { 1 } else { n.sec(c.sec).len() };
        let maxlen = 3 * n + 2;
        for a0 in [Act::D, Act::N] {
            for a1 in [Act::D, Act::N] {
                for a2 in [Act::D, Act::N] {
                    unit += 1;
                    if !ctx.mine(unit) {
                        continue;
                    }
                    if a0 == Act::D && a1 == Act::D && a2 == Act::D {
                        // the shorter prefixes are explored once, by the owner of this unit
                        for pre in [vec![], vec![a0], vec![a0, a1], vec![Act::D, Act::N], vec![Act::N], vec![Act::N, Act::D], vec![Act::N, Act::N]] {
                            let mut p = pre.clone();
                            let save = maxlen.min(p.len());
                            explore(c, ci, &mut p, save, ctx, rep);
                        }
                    }
                    let mut p = vec![a0, a1, a2];
                    if maxlen >= 3 {
                        explore(c, ci, &mut p, maxlen, ctx, rep);
                    }
                }
            }
        }
    }
}

fn replay(case: &Value) -> Result<String, String> {
    let c = Case {
        bytes: unhex(case["input"].as_str().unwrap_or("")),
        sec: crate::bfs_model::sec_from(case["section"].as_str().unwrap_or("")),
        incl_opt: case["incl_opt"].as_bool().unwrap_or(false),
        prep: case["prep"].as_u64().unwrap_or(case["prep"].as_bool().unwrap_or(false) as u64) as u8,
        tag: String::new(),
    };
    let acts: Vec<Act> = case["acts"].as_str().unwrap_or("").chars().map(|ch| if ch == 'D' { Act::D } else { Act::N }).collect();
    println!("input: {}", hex(&c.bytes));
    println!("message: {}", describe(&decode(&c.bytes).map_err(|e| format!("{:?}", e))?.msg));
    println!("walk over {} (incl_opt={}) with actions {} then next() to the end", sec_name(c.sec), c.incl_opt, acts_str(&acts));
    match run_case(&c, &acts) {
        Ok(w) => Ok(w.class),
        Err((sig, what)) => Err(format!("[{}] {}", sig, what)),
    }
}
