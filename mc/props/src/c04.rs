//! C04: header, question and EDNS summaries equal what the bytes say.

use crate::engine::*;
use crate::subj;
use crate::PropDef;
use refmodel::gen::*;
use refmodel::msg::*;
use refmodel::wire::*;
use serde_json::{json, Value};

pub fn def() -> PropDef {
    PropDef {
        id: "C04",
        rule: "bases x all 65536 flag words (QR-clear words only on record-free bases); OPT grid: all 65536 extended-flag words x ext-rcode x version x payload x option lists x QR; question-name encodings (plain, root, mixed case, high bytes, 63-byte label, 255-byte name, pointer chains, pointer into the header) x compatible flag words; plus every L3 message once. Distinct classes = (base, QR, OPT present, dnssec result, option count)",
        run,
        replay,
        bounds: |t| json!({"flag_words": 65536, "ext_flag_words": 65536, "ext_rcode": [0,1,255], "version": [0,1,255], "payload": [0,512,1232,65535],
                           "option_lists": 3, "question_encodings": 9, "L3": t.pick("4 names, k<=2", "6 names, k<=2")}),
        assumptions: &["refmodel decode/view give the RFC 1035/6891 reading of header, question and OPT"],
        budget_s: |t| t.pick(50, 600),
        exhaustive: true,
        nshards: 16,
        post: |rep, _| {
            let mut v = vec![];
            for need in ["dnssec=1", "dnssec=0", "opt=1", "opt=0", "qr=0", "qr=1", "enc=into_header", "cnt=2"] {
                if !rep.classes.keys().any(|k| k.contains(need)) {
                    v.push(format!("no explored case with {}", need));
                }
            }
            v
        },
    }
}

pub fn check_packet(x: &[u8], tag: &str) -> Result<String, (String, String)> {
    let d = decode(x).expect("undecodable generated packet");
    let v = view(x, &d);
    let mut pp = match subj::parse(x) {
        Ok(p) => p,
        Err(e) => {
            if wf(x).is_ok() {
                return Ok(format!("{} parser_rejected(C02): {}", tag, e));
            }
            panic!("generator bug: ill-formed packet {} ({:?})", hex(x), wf(x));
        }
    };
    let fl = be16(x, 2);
    let exp_flags = ((v.ext_flags.unwrap_or(0) as u32) << 16) | (fl & !0x7800 & !0x000f) as u32;
    let qr = fl & 0x8000 != 0;
    let exp_dnssec = if qr { fl & 0x0020 != 0 } else { v.ext_flags.unwrap_or(0) & 0x8000 != 0 };
    let q = &d.msg.q[0];
    let r = caught(|| -> Result<(), (String, String)> {
        macro_rules! eq {
            ($name:expr, $got:expr, $exp:expr) => {
                let (g, e) = ($got, $exp);
                if g != e {
                    return Err((format!("getter:{}", $name), format!("{} = {:?}, bytes say {:?}", $name, g, e)));
                }
            };
        }
        eq!("tid", pp.tid(), be16(x, 0));
        eq!("opcode", pp.opcode(), ((fl >> 11) & 0xf) as u8);
        eq!("rcode", pp.rcode(), (fl & 0xf) as u8);
        eq!("is_response", pp.is_response(), qr);
        eq!("is_response(assoc)", dnssector::DNSSector::is_response(pp.packet()), qr);
        eq!("flags", pp.flags(), exp_flags);
        eq!("dnssec", pp.dnssec(), exp_dnssec);
        // the flag word is read through the crate's own named constants: each must pick the header bit RFC 1035 /
        // RFC 4035 / RFC 6891 give that flag
        for (cname, c, bit) in [("DNS_FLAG_QR", dnssector::DNS_FLAG_QR, 15u32), ("DNS_FLAG_AA", dnssector::DNS_FLAG_AA, 10), ("DNS_FLAG_TC", dnssector::DNS_FLAG_TC, 9), ("DNS_FLAG_RD", dnssector::DNS_FLAG_RD, 8), ("DNS_FLAG_RA", dnssector::DNS_FLAG_RA, 7), ("DNS_FLAG_AD", dnssector::DNS_FLAG_AD, 5), ("DNS_FLAG_CD", dnssector::DNS_FLAG_CD, 4), ("DNS_FLAG_DO", dnssector::DNS_FLAG_DO, 31)] {
            eq!(cname, pp.flags() & c != 0, (exp_flags >> bit) & 1 != 0);
        }
        eq!("edns_version", pp.edns_version, v.edns_version);
        eq!("ext_rcode", pp.ext_rcode, v.ext_rcode);
        eq!("ext_flags", pp.ext_flags, v.ext_flags);
        eq!("edns_count", pp.edns_count, v.edns_count);
        eq!("offset_edns", pp.offset_edns, v.offset_edns);
        eq!("max_payload", pp.max_payload(), v.max_payload);
        eq!("qdcount", dnssector::DNSSector::qdcount(pp.packet()), d.msg.q.len() as u16);
        eq!("ancount", dnssector::DNSSector::ancount(pp.packet()), d.msg.an.len() as u16);
        eq!("nscount", dnssector::DNSSector::nscount(pp.packet()), d.msg.ns.len() as u16);
        eq!("arcount", dnssector::DNSSector::arcount(pp.packet()), d.msg.ar.len() as u16);
        // cold paths first
        eq!("qtype_qclass(cold)", pp.qtype_qclass(), Some((q.qtype, q.qclass)));
        eq!("question(cold)", pp.question(), Some((dotted_lower(&q.name), q.qtype, q.qclass)));
        eq!("question_raw0", pp.question_raw0().map(|(n, t, c)| (n.to_vec(), t, c)), Some((q.name.clone(), q.qtype, q.qclass)));
        eq!("question_raw", pp.question_raw().map(|(n, t, c)| (n.to_vec(), t, c)), Some((q.name[..q.name.len() - 1].to_vec(), q.qtype, q.qclass)));
        // memoised paths
        eq!("qtype_qclass(memo)", pp.qtype_qclass(), Some((q.qtype, q.qclass)));
        eq!("question(memo)", pp.question(), Some((dotted_lower(&q.name), q.qtype, q.qclass)));
        eq!("question_raw0(memo)", pp.question_raw0().map(|(n, t, c)| (n.to_vec(), t, c)), Some((q.name.clone(), q.qtype, q.qclass)));
        if pp.packet() != x {
            return Err(("bytes_changed".into(), "getters altered the packet".into()));
        }
        Ok(())
    });
    match r {
        Err(p) => Err((format!("getter:panic:{}", panic_site(&p)), format!("a getter panicked: {}", p))),
        Ok(Err(e)) => Err(e),
        Ok(Ok(())) => Ok(format!("{} qr={} opt={} dnssec={} cnt={}", tag, qr as u8, v.offset_edns.is_some() as u8, exp_dnssec as u8, v.edns_count.min(2))),
    }
}

fn one(ctx: &mut Ctx, rep: &mut Report, x: &[u8], tag: &str) {
    if ctx.journaling() {
        ctx.journal(|| json!({"input": hex(x), "tag": tag}));
    }
    rep.transitions += 1;
    rep.states += 1;
    match check_packet(x, tag) {
        Ok(c) => {
            rep.class(&c);
            if rep.samples.len() < MAX_SAMPLES && rep.transitions % 50021 == 1 {
                rep.sample(|| json!({"input": hex(x), "class": c}));
            }
        }
        Err((sig, what)) => rep.violation(&sig, what, json!({"input": hex(x), "tag": tag})),
    }
}

/// question-name encodings: (tag, full packet with a flags word slot, constraint on the flags word)
fn question_encodings() -> Vec<(&'static str, Vec<u8>, fn(u16) -> bool)> {
    let hdr = |id: [u8; 2]| vec![id[0], id[1], 0, 0, 0, 1, 0, 0, 0, 0, 0, 0];
    let mut v: Vec<(&'static str, Vec<u8>, fn(u16) -> bool)> = vec![];
    let any: fn(u16) -> bool = |_| true;
    let mk = |name: &[u8]| {
        let mut p = hdr([0x12, 0x34]);
        p.extend_from_slice(name);
        p.extend_from_slice(&[0, 28, 0, 1]);
        p
    };
    v.push(("enc=plain", mk(&nm("b.a")), any));
    v.push(("enc=root", mk(&[0]), any));
    v.push(("enc=mixed", mk(&nm("Bb.A")), any));
    v.push(("enc=high", mk(&[3, 0x80, 0xff, b'Z', 2, b'-', b'_', 0]), any));
    let mut l63 = vec![63u8];
    l63.extend(std::iter::repeat(b'Q').take(63));
    l63.push(0);
    v.push(("enc=l63", mk(&l63), any));
    v.push(("enc=n255", mk(&name_of_wire_len(255)), any));
    // pointer into the header: id = [1,'a'], flags high byte = 0 (root) => name "a" at offset 0
    let mut p = hdr([1, b'A']);
    p.extend_from_slice(&[0xc0, 0, 0, 1, 0, 1]);
    v.push(("enc=into_header", p, |f| f >> 8 == 0));
    // response variant: id = [2,'a'], flags high byte is a label byte (>= 0x80), low byte 0 = root
    let mut p = hdr([2, b'a']);
    p.extend_from_slice(&[0xc0, 0, 0, 1, 0, 1]);
    v.push(("enc=into_header", p, |f| f & 0xff == 0 && f >> 8 >= 0x80));
    // label then pointer into the header
    let mut p = hdr([1, b'a']);
    p.extend_from_slice(&[1, b'W', 0xc0, 0, 0, 1, 0, 1]);
    v.push(("enc=into_header", p, |f| f >> 8 == 0));
    v
}

fn run(ctx: &mut Ctx, rep: &mut Report) {
    let a = nm("a");
    let ba = nm("b.a");
    // bases
    let mut bases: Vec<(String, Vec<u8>, bool)> = vec![]; // (tag, bytes, has an/ns records)
    for (oi, opt) in [None, Some(opt_variants()[0].clone()), Some(opt_variants()[2].clone())].iter().enumerate() {
        let mut q = base_msg(&ba, T_A, false);
        if let Some(o) = opt {
            q.ar.push(o.clone());
        }
        bases.push((format!("base=q{}", oi), encode(&q, Strategy::Max), false));
        let mut r = base_msg(&ba, T_A, true);
        r.an.push(a_rec(&ba, 1, [1, 2, 3, 4]));
        r.ns.push(name_rec(&a, T_NS, 1, &ba));
        if let Some(o) = opt {
            r.ar.push(a_rec(&a, 1, [1, 1, 1, 1]));
            r.ar.push(o.clone());
        }
        bases.push((format!("base=r{}", oi), encode(&r, Strategy::Max), true));
    }
    let mut gi = 0u64;
    for (tag, b, has_recs) in &bases {
        let mut x = b.clone();
        for w in 0..=0xffffu32 {
            gi += 1;
            if !ctx.mine(gi) {
                continue;
            }
            let w = w as u16;
            if *has_recs && w & 0x8000 == 0 {
                continue;
            }
            x[2] = (w >> 8) as u8;
            x[3] = w as u8;
            one(ctx, rep, &x, tag);
        }
    }
    // OPT grid
    let optlists: Vec<Vec<(u16, Vec<u8>)>> = vec![vec![], vec![(10, vec![1, 2, 3])], vec![(8, vec![]), (65535, vec![0; 2]), (1, vec![9])]];
    for qr in [false, true] {
        for (li, ol) in optlists.iter().enumerate() {
            for &payload in &[0u16, 512, 1232, 65535] {
                for &erc in &[0u8, 1, 255] {
                    for &ver in &[0u8, 1, 255] {
                        gi += 1;
                        if !ctx.mine(gi) {
                            continue;
                        }
                        let mut m = base_msg(&ba, T_A, qr);
                        if qr {
                            m.an.push(a_rec(&ba, 1, [1, 2, 3, 4]));
                        }
                        m.ar.push(opt_rec(payload, erc, ver, 0, ol));
                        let mut x = encode(&m, Strategy::Max);
                        // ext flags live in the last two TTL bytes of the OPT record
                        let d = decode(&x).unwrap();
                        let e = d.spans.last().unwrap().name_end;
                        let tag = format!("grid=opt{}", li);
                        for ef in 0..=0xffffu32 {
                            x[e + 6] = (ef >> 8) as u8;
                            x[e + 7] = ef as u8;
                            // and flip AD along with bit 0 of ef so that both dnssec branches vary
                            x[3] = (x[3] & !0x20) | (((ef & 1) as u8) << 5);
                            one(ctx, rep, &x, &tag);
                        }
                    }
                }
            }
        }
    }
    // question encodings x compatible flag words
    for (tag, p, ok) in question_encodings() {
        let mut x = p.clone();
        for w in 0..=0xffffu32 {
            let w = w as u16;
            if !ok(w) {
                continue;
            }
            gi += 1;
            if !ctx.mine(gi) {
                continue;
            }
            x[2] = (w >> 8) as u8;
            x[3] = w as u8;
            one(ctx, rep, &x, tag);
        }
    }
    // every L3 message once (two strategies)
    let nn = ctx.tier.pick(4, 6);
    let names: Vec<Name> = std_names()[..nn].to_vec();
    let menu = rec_menu(&names, 0);
    let opts = opt_variants();
    let shard = ctx.shard as u64;
    let nsh = ctx.nshards as u64;
    let ctxp: *mut Ctx = ctx;
    let repp: *mut Report = rep;
    messages(&names, &menu, &opts, 2, &|g| g % nsh == shard, |m| {
        let (ctx, rep) = unsafe { (&mut *ctxp, &mut *repp) };
        for s in [Strategy::Max, Strategy::Chain] {
            let x = encode(m, s);
            one(ctx, rep, &x, "L3");
        }
    });
}

fn replay(case: &Value) -> Result<String, String> {
    let x = unhex(case["input"].as_str().unwrap_or(""));
    println!("input: {}", hex(&x));
    match check_packet(&x, case["tag"].as_str().unwrap_or("")) {
        Ok(c) => Ok(c),
        Err((sig, what)) => Err(format!("[{}] {}", sig, what)),
    }
}
