//! Explicit-state breadth-first search over operation sequences on the real ParsedPacket (C08, C09, C10).

use crate::bfs_exec::*;
use crate::bfs_model::*;
use crate::engine::*;
use crate::PropDef;
use dnssector::*;
use refmodel::gen::*;
use refmodel::msg::*;
use refmodel::wire::*;
use serde_json::{json, Value};
use std::collections::HashSet;
use std::hash::{Hash, Hasher};

#[derive(Clone, Copy, PartialEq, Eq, Debug)]
pub enum Mode {
    C08,
    C09,
    C10,
}

const RULE: &str = "explicit-state BFS: a state is every field of the ParsedPacket object (bytes, five offsets, EDNS summary, memoised question, pointer flag); transitions are real API calls (header setters, question_raw0, recompute, insert_rr/insert_rr_from_string in every section incl. fillers landing on 8191/8192/8193, rename, and cursor programs of <=2 (quick) / <=3 (thorough) steps over set_raw_name/delete/set_rr_ttl/set_rr_ip/uncompress/next on every record of every section incl. the question and OPT) with succeeding and failing arguments; every transition is judged against the abstract operation applied to the decoded message; distinct classes = (operation, expected ok/err, per-step outcomes)";

fn mk(id: &'static str, mode: Mode) -> PropDef {
    PropDef {
        id,
        rule: RULE,
        run: match mode {
            Mode::C08 => |c, r| run(c, r, Mode::C08),
            Mode::C09 => |c, r| run(c, r, Mode::C09),
            Mode::C10 => |c, r| run(c, r, Mode::C10),
        },
        replay: match mode {
            Mode::C08 => |v| replay(v, Mode::C08),
            Mode::C09 => |v| replay(v, Mode::C09),
            Mode::C10 => |v| replay(v, Mode::C10),
        },
        bounds: |t| json!({"initial_states": initial_states(t, true).len(), "depth": t.pick(3, 4), "cursor_program_len": t.pick(2, 3),
                           "names_ok": format!("{:?}", NAMES_OK), "names_must_fail": format!("{:?}", NAMES_BAD),
                           "insert_texts": insert_texts().iter().map(|t| t.0).collect::<Vec<_>>(), "fillers": [8191, 8192, 8193],
                           "rename_triples": rename_triples().len(), "state_cap_per_worker": t.pick(400000, 3000000)}),
        assumptions: &[
            "histories are protocol-consistent (no query carrying answer/authority records); recompute() only where its documented precondition holds (bytes pointer-free or flag already clear); accessors other than delete/set_raw_name/next are not applied to a deleted record's cursor",
            "states reached through a transition that violates any of C08/C09/C10 are not expanded further (each property reports only violations reached through clean paths)",
            "per-worker state counts are summed; a state reachable from two depth-1 states handled by different workers is counted twice",
        ],
        budget_s: |t| t.pick(80, 1500),
        exhaustive: true,
        nshards: 16,
        post: |rep, _| {
            let mut v = vec![];
            for need in ["exp=err", "exp=ok", "cursor(question)", "cursor(additional+opt)", "delete(", "set_raw_name(", "iter_uncompress(", "rename_with_raw_names", "insert_rr("] {
                if !rep.classes.keys().any(|k| k.contains(need)) {
                    v.push(format!("no explored transition with {}", need));
                }
            }
            v
        },
    }
}

pub fn c08() -> PropDef {
    mk("C08", Mode::C08)
}
pub fn c09() -> PropDef {
    mk("C09", Mode::C09)
}
pub fn c10() -> PropDef {
    mk("C10", Mode::C10)
}

#[derive(Clone, Debug)]
pub enum Init {
    Packet(Vec<u8>),
    /// parsed, then settled: decompressed in place through the question cursor, question memo filled by
    /// `question_raw0()`
    Settled(Vec<u8>),
    Empty,
    Query,
}

fn init_json(i: &Init) -> Value {
    match i {
        Init::Packet(p) => json!({"kind": "packet", "hex": hex(p)}),
        Init::Settled(p) => json!({"kind": "settled", "hex": hex(p)}),
        Init::Empty => json!({"kind": "empty"}),
        Init::Query => json!({"kind": "query"}),
    }
}

fn init_from(v: &Value) -> Init {
    match v["kind"].as_str().unwrap_or("") {
        "empty" => Init::Empty,
        "query" => Init::Query,
        "settled" => Init::Settled(unhex(v["hex"].as_str().unwrap_or(""))),
        _ => Init::Packet(unhex(v["hex"].as_str().unwrap_or(""))),
    }
}

pub fn init_snap(i: &Init) -> Option<Snap> {
    match i {
        Init::Packet(p) => crate::subj::parse(p).ok().map(|pp| snap(&pp)),
        Init::Settled(p) => {
            let mut pp = crate::subj::parse(p).ok()?;
            pp.into_iter_question()?.uncompress().ok()?;
            let _ = pp.question_raw0();
            Some(snap(&pp))
        }
        Init::Empty => {
            let mut pp = ParsedPacket::empty();
            pp.set_tid(0x1234);
            Some(snap(&pp))
        }
        Init::Query => {
            let mut pp = r#gen::query(b"b.a", Type::A, Class::IN).ok()?;
            pp.set_tid(0x1234);
            Some(snap(&pp))
        }
    }
}

/// (initial state, shallow) — shallow ones (big packets) are only expanded one level
/// (initial state, shallow, maximal depth explored from it)
pub fn initial_states(t: Tier, with_big: bool) -> Vec<(Init, bool)> {
    initial_states_d(t, with_big).into_iter().map(|(i, d)| (i, d == 1)).collect()
}

pub fn initial_states_d(t: Tier, with_big: bool) -> Vec<(Init, usize)> {
    let full = usize::MAX;
    let (a, ba, cba) = (nm("a"), nm("b.a"), nm("c.b.a"));
    let opt = opt_variants();
    let mut ip6 = [0u8; 16];
    ip6[0] = 0x20;
    let mut msgs: Vec<Msg> = vec![];
    let r = |an: Vec<Rec>, ns: Vec<Rec>, ar: Vec<Rec>| {
        let mut m = base_msg(&ba, T_A, true);
        m.an = an;
        m.ns = ns;
        m.ar = ar;
        m
    };
    msgs.push(r(vec![a_rec(&ba, 60, [1, 2, 3, 4])], vec![], vec![]));
    msgs.push(r(vec![name_rec(&ba, T_CNAME, 5, &a), a_rec(&a, 6, [9, 9, 9, 9])], vec![name_rec(&a, T_NS, 7, &cba)], vec![a_rec(&cba, 8, [7, 7, 7, 7])]));
    msgs.push(r(vec![a_rec(&ba, 60, [1, 2, 3, 4])], vec![], vec![a_rec(&a, 1, [1, 1, 1, 1]), opt[1].clone()]));
    msgs.push(r(vec![a_rec(&ba, 60, [1, 2, 3, 4])], vec![], vec![opt[1].clone(), a_rec(&a, 1, [1, 1, 1, 1])]));
    msgs.push(r(vec![], vec![name_rec(&a, T_NS, 7, &ba)], vec![a_rec(&ba, 1, [1, 1, 1, 1]), opt[2].clone(), aaaa_rec(&cba, 2, ip6)]));
    msgs.push(r(vec![], vec![], vec![opt[0].clone()]));
    msgs.push(r(vec![mx_rec(&ba, 9, 10, &cba)], vec![soa_rec(&a, 3, &ba, &cba)], vec![opt[1].clone()]));
    let d2_from = msgs.len(); // the messages pushed from here up to d2_to are explored to depth 2 only
    // no authority, two additional records of which the second is compressed against the first
    msgs.push(r(vec![a_rec(&ba, 60, [1, 2, 3, 4])], vec![], vec![a_rec(&nm("x.y"), 1, [1, 1, 1, 1]), name_rec(&nm("z.x.y"), T_CNAME, 2, &nm("x.y"))]));
    // the root as question name and as an owner (the shortest possible records)
    {
        let mut m = r(vec![a_rec(&vec![0u8], 60, [1, 2, 3, 4])], vec![name_rec(&vec![0u8], T_NS, 5, &a)], vec![opt[0].clone()]);
        m.q[0].name = vec![0u8];
        m.q[0].qtype = T_NS;
        msgs.push(m);
    }
    // a question of type OPT (41) next to a real OPT record
    {
        let mut m = r(vec![a_rec(&ba, 60, [1, 2, 3, 4])], vec![], vec![opt[1].clone()]);
        m.q[0].qtype = T_OPT;
        msgs.push(m);
    }
    // the LAST record of the packet carries a name in its data that is compressed against an inner label of
    // its own owner (owner zone occurs nowhere earlier)
    msgs.push(r(vec![a_rec(&ba, 60, [1, 2, 3, 4])], vec![name_rec(&nm("x.y.other"), T_NS, 3, &nm("ns.y.other"))], vec![]));
    msgs.push(r(vec![mx_rec(&nm("m.x.y.other"), 4, 10, &nm("mail.y.other"))], vec![], vec![]));
    // an RRset: an owner unrelated to the question written out once, then named by bare pointers
    {
        let xy = nm("x.y");
        msgs.push(r(vec![a_rec(&xy, 300, [10, 0, 0, 1]), a_rec(&xy, 301, [10, 0, 0, 2]), name_rec(&xy, T_NS, 302, &nm("ns.x.y"))], vec![], vec![a_rec(&nm("ns.x.y"), 304, [10, 0, 0, 3]), opt[1].clone()]));
    }
    let d2_to = msgs.len();
    let mut q = base_msg(&ba, T_A, false);
    q.ar.push(opt[0].clone());
    msgs.push(q);
    msgs.push(base_msg(&cba, T_MX, false));
    if t == Tier::Thorough {
        msgs.push(r(vec![name_rec(&ba, T_PTR, 5, &cba), dname_rec(&a, 5, &nm("x")), txt_rec(&cba, 1, b"t")], vec![], vec![opt[2].clone()]));
        msgs.push(r(vec![a_rec(&nm("B.A"), 60, [1, 2, 3, 4]), a_rec(&ba, 61, [1, 2, 3, 5])], vec![soa_rec(&ba, 3, &a, &a)], vec![mx_rec(&a, 1, 1, &ba)]));
        msgs.push(r(vec![], vec![], vec![]));
    }
    let mut v: Vec<(Init, usize)> = vec![];
    for (mi, m) in msgs.iter().enumerate() {
        let d2 = mi >= d2_from && mi < d2_to;
        let strategies: &[Strategy] = if d2 { &[Strategy::Max, Strategy::Plain] } else { &[Strategy::Max, Strategy::Plain, Strategy::Chain, Strategy::RdataOnly] };
        for s in strategies {
            let x = encode(m, *s);
            if !v.iter().any(|(i, _)| matches!(i, Init::Packet(p) if *p == x)) {
                v.push((Init::Packet(x), if d2 { 2 } else { full }));
            }
        }
    }
    // layout grid (depth 2): every combination of empty / non-empty record sections, with and without OPT,
    // names compressed within their own section, one record of class CH
    for mask in 0..8u8 {
        for with_opt in [false, true] {
            let mut m = base_msg(&ba, T_A, true);
            if mask & 1 != 0 {
                m.an.push(a_rec(&nm("p.an"), 1, [1, 0, 0, 1]));
                m.an.push(name_rec(&nm("q.p.an"), T_CNAME, 2, &nm("p.an")));
            }
            if mask & 2 != 0 {
                let mut r = name_rec(&nm("p.ns"), T_NS, 3, &nm("q.p.ns"));
                r.class = 3;
                m.ns.push(r);
                m.ns.push(mx_rec(&nm("q.p.ns"), 4, 1, &nm("p.ns")));
            }
            if mask & 4 != 0 {
                m.ar.push(a_rec(&nm("p.ar"), 5, [1, 0, 0, 5]));
                m.ar.push(name_rec(&nm("q.p.ar"), T_PTR, 6, &nm("p.ar")));
            }
            if with_opt {
                m.ar.push(opt[1].clone());
            }
            let x = encode(&m, Strategy::Max);
            if !v.iter().any(|(i, _)| matches!(i, Init::Packet(p) if *p == x)) {
                v.push((Init::Packet(x), 2));
            }
        }
    }
    // names at offsets where pointer bytes take special values (c1 00, c2 00) and packets longer than 256 bytes
    let al = aligned_pointer_packets();
    v.push((Init::Packet(al[5].clone()), 2)); // name at 256, with OPT
    if t == Tier::Thorough {
        v.push((Init::Packet(al[12].clone()), 2)); // name at 512
    }
    // question names written through the header bytes (header setters are then out of the alphabet)
    for p in into_header_packets().into_iter().take(4) {
        v.push((Init::Packet(p), 2));
    }
    v.push((Init::Empty, full));
    v.push((Init::Query, full));
    // small packets as objects with a history (decompressed, question memo filled)
    v.push((Init::Settled(encode(&msgs[1], Strategy::Max)), 2));
    v.push((Init::Settled(encode(&msgs[6], Strategy::Max)), 2));
    if with_big {
        // larger than the insertion limit, as arrives over TCP: plain and "small but expands"
        let mut big = r(vec![a_rec(&ba, 60, [1, 2, 3, 4])], vec![], vec![opt[1].clone()]);
        big.an.push(Rec { owner: a.clone(), rtype: 99, class: 1, ttl: 0, rdata: Rdata::Opaque(vec![0x41; 9000]) });
        v.push((Init::Packet(encode(&big, Strategy::Plain)), 1));
        v.push((Init::Packet(encode(&big, Strategy::Max)), 1));
        let long = name_of_wire_len(255);
        let mut exp = base_msg(&long, T_A, true);
        for i in 0..40u32 {
            exp.an.push(name_rec(&long, T_CNAME, i, &long));
        }
        v.push((Init::Packet(encode(&exp, Strategy::Max)), 1)); // ~1.3 KB on the wire, > 20 KB expanded
        // the same growth hidden in record data only: every owner and the question spelled out, targets shared
        let mut exp2 = base_msg(&ba, T_A, true);
        for i in 0..40u32 {
            exp2.an.push(name_rec(&a, T_CNAME, i, &long));
        }
        v.push((Init::Packet(encode(&exp2, Strategy::RdataOnly)), 1));
        // names stored at offsets 8192 and 16378, pointed at by later records (larger than the insertion limit)
        for p in al.iter().filter(|p| p.len() > 8192).step_by(3).take(3) {
            v.push((Init::Packet(p.clone()), 1));
        }
        // ~5 KB on the wire, ~80 KB expanded (beyond what a 16-bit length can say): 300 A records owned by a
        // 253-byte question name, then one authority and one additional record
        {
            let long253 = name_of_wire_len(253);
            let mut huge = base_msg(&long253, T_A, true);
            for i in 0..300u32 {
                huge.an.push(a_rec(&long253, i, [10, 0, (i >> 8) as u8, i as u8]));
            }
            huge.ns.push(name_rec(&long253, T_NS, 7, &ba));
            huge.ar.push(a_rec(&ba, 1, [1, 1, 1, 1]));
            v.push((Init::Packet(encode(&huge, Strategy::Max)), 1));
        }
        // just below 65535 bytes: growing a name must fail with "too large"
        let mut near = r(vec![], vec![name_rec(&a, T_NS, 7, &ba)], vec![a_rec(&ba, 1, [1, 1, 1, 1]), opt[1].clone()]);
        near.an.push(a_rec(&a, 1, [1, 2, 3, 4]));
        let used = plain_len(&near);
        near.an.push(Rec { owner: a.clone(), rtype: 99, class: 1, ttl: 0, rdata: Rdata::Opaque(vec![0x42; 65535 - used - 13 - 20]) });
        v.push((Init::Packet(encode(&near, Strategy::Plain)), 1));
        v.push((Init::Packet(encode(&near, Strategy::Max)), 1));
        // the same just-below-65535 packet as an object with a history (decompressed, question memo filled), and
        // two small packets likewise: one level of every operation from there
        v.push((Init::Settled(encode(&near, Strategy::Plain)), 1));
        v.push((Init::Settled(encode(&near, Strategy::Max)), 1));
        // 8192 exactly and 8180
        for total in [8192usize, 8180] {
            let mut m = r(vec![a_rec(&ba, 60, [1, 2, 3, 4])], vec![], vec![]);
            let used = plain_len(&m);
            m.an.push(Rec { owner: a.clone(), rtype: 99, class: 1, ttl: 0, rdata: Rdata::Opaque(vec![0x43; total - used - 13]) });
            v.push((Init::Packet(encode(&m, Strategy::Plain)), 1));
        }
    }
    v
}

fn programs(sec: Sec, incl_opt: bool, maxlen: usize) -> Vec<Vec<CurOp>> {
    let next = if incl_opt { CurOp::NextInclOpt } else { CurOp::Next };
    let mut singles: Vec<CurOp> = vec![];
    for a in NAMES_OK.iter().chain(NAMES_BAD.iter()) {
        singles.push(CurOp::SetName(*a));
    }
    singles.push(CurOp::SetName(NameArg::Huge));
    singles.push(CurOp::Delete);
    singles.push(CurOp::Uncompress);
    singles.push(next.clone());
    if sec != Sec::Question {
        singles.push(CurOp::SetTtl(0));
        singles.push(CurOp::SetTtl(0xffff_ffff));
        for i in 0..4 {
            singles.push(CurOp::SetIp(i));
        }
    }
    let mut v: Vec<Vec<CurOp>> = singles.iter().map(|c| vec![c.clone()]).collect();
    if maxlen >= 2 {
        let firsts = vec![CurOp::SetName(NameArg::X), CurOp::SetName(NameArg::PlusLabel), CurOp::SetName(NameArg::Root), CurOp::Delete, CurOp::Uncompress, CurOp::SetName(NameArg::BadCtrl), next.clone()];
        let mut seconds = vec![next.clone(), CurOp::Delete, CurOp::SetName(NameArg::YyX), CurOp::Uncompress];
        if sec != Sec::Question {
            seconds.push(CurOp::SetTtl(7));
            seconds.push(CurOp::SetIp(1));
        }
        for f in &firsts {
            for s in &seconds {
                v.push(vec![f.clone(), s.clone()]);
                if maxlen >= 3 {
                    for th in [next.clone(), CurOp::Delete, CurOp::SetName(NameArg::SameLen)] {
                        v.push(vec![f.clone(), s.clone(), th]);
                    }
                }
            }
        }
    }
    v
}

fn alphabet(m: &Msg, s: &Snap, pointer_free: bool, tier: Tier, shallow: bool) -> Vec<Op> {
    let mut ops = vec![
        Op::SetTid(0xffff),
        Op::SetFlags(0xffff_ffff),
        Op::SetFlags(0),
        Op::SetRcode(0xff),
        Op::SetOpcode(0xff),
        Op::SetResponse(true),
        Op::SetResponse(false),
        Op::QuestionRaw0,
        Op::Recompute,
        Op::InsertQuestion(0),
        Op::InsertQuestion(1),
    ];
    for sec in [Sec::Answer, Sec::Authority, Sec::Additional] {
        for i in 0..N_TEXT_OK {
            ops.push(Op::InsertText(sec, i));
        }
    }
    for i in N_TEXT_OK..insert_texts().len() {
        ops.push(Op::InsertText(Sec::Answer, i));
    }
    for sec in [Sec::Answer, Sec::Additional] {
        for t in [8191usize, 8192, 8193] {
            ops.push(Op::InsertFiller(sec, t));
        }
    }
    for i in 0..rename_triples().len() {
        ops.push(Op::Rename(i));
    }
    let plen = if shallow { 1 } else { tier.pick(2, 3) };
    for (sec, incl) in [(Sec::Question, false), (Sec::Answer, false), (Sec::Authority, false), (Sec::Additional, false), (Sec::Additional, true)] {
        let n = if sec == Sec::Question { m.q.len() } else { m.sec(sec).len() };
        let progs = programs(sec, incl, plen);
        for index in 0..n.min(4) {
            for p in &progs {
                ops.push(Op::Cursor { sec, incl_opt: incl, index, prog: p.clone() });
            }
        }
    }
    ops.retain(|o| applicable(o, m, s, pointer_free));
    ops
}

fn fp(s: &Snap) -> u128 {
    let mut h1 = std::collections::hash_map::DefaultHasher::new();
    s.hash(&mut h1);
    let mut h2 = std::collections::hash_map::DefaultHasher::new();
    0x9e3779b97f4a7c15u64.hash(&mut h2);
    s.hash(&mut h2);
    ((h1.finish() as u128) << 64) | h2.finish() as u128
}

struct Node {
    snap: Snap,
    parent: Option<usize>,
    op: Option<Op>,
    init: usize,
    maxdepth: usize,
}

fn path_of(nodes: &[Node], mut i: usize) -> (usize, Vec<Op>) {
    let mut ops = vec![];
    loop {
        if let Some(o) = &nodes[i].op {
            ops.push(o.clone());
        }
        match nodes[i].parent {
            Some(p) => i = p,
            None => break,
        }
    }
    ops.reverse();
    (nodes[i].init, ops)
}

fn pick(vd: &Verdicts, mode: Mode) -> &V {
    match mode {
        Mode::C08 => &vd.c08,
        Mode::C09 => &vd.c09,
        Mode::C10 => &vd.c10,
    }
}

fn run(ctx: &mut Ctx, rep: &mut Report, mode: Mode) {
    let tier = ctx.tier;
    let depth = tier.pick(3, 4);
    let cap = tier.pick(400_000usize, 3_000_000);
    let inits = initial_states_d(tier, true);
    let mut nodes: Vec<Node> = vec![];
    let mut seen: HashSet<u128> = HashSet::new();
    for (i, (init, maxdepth)) in inits.iter().enumerate() {
        match init_snap(init) {
            Some(s) => {
                let mut maxdepth = *maxdepth;
                if let Err((sig, w)) = view_check(&s) {
                    if mode == Mode::C08 {
                        rep.violation(&format!("initial:{}", sig), w, json!({"initial": init_json(init), "ops": []}));
                        continue;
                    }
                    // the parser's own view of this packet is already off (C08 reports that); what single
                    // operations then do to the message and how they fail is still C09's and C10's business
                    maxdepth = 1;
                }
                if seen.insert(fp(&s)) {
                    nodes.push(Node { snap: s, parent: None, op: None, init: i, maxdepth });
                }
            }
            None => rep.notes.push(format!("initial state {} could not be built", i)),
        }
    }
    rep.states += if ctx.shard == 0 { nodes.len() as u64 } else { 0 };
    let mut level_start = 0usize;
    let mut completed_depth = 0usize;
    for level in 0..depth {
        let level_end = nodes.len();
        let mut capped = false;
        for ni in level_start..level_end {
            // level 0 is expanded by every worker (cheap); from level 1 on a worker keeps only its share
            if level == 0 {
                // nothing to filter
            }
            if level >= nodes[ni].maxdepth {
                continue;
            }
            if ctx.timed_out() || nodes.len() >= cap {
                capped = true;
                break;
            }
            let s = nodes[ni].snap.clone();
            let bytes = s.packet.clone().unwrap();
            let d = decode(&bytes).unwrap();
            let ops = alphabet(&d.msg, &s, d.pointer_free, tier, nodes[ni].maxdepth == 1);
            for op in ops {
                let count_it = level > 0 || ctx.shard == 0;
                if ctx.journaling() {
                    let (init, mut path) = path_of(&nodes, ni);
                    path.push(op.clone());
                    ctx.journal(|| json!({"initial": init_json(&inits[init].0), "ops": path.iter().map(op_to_json).collect::<Vec<_>>()}));
                }
                let vd = guarded(|| exec_op(&s, &op));
                if count_it {
                    rep.transitions += vd.steps.max(1);
                    rep.evaluations += 1;
                    rep.class(&vd.class);
                }
                if let Some((sig, what)) = pick(&vd, mode) {
                    if count_it {
                        let (init, mut path) = path_of(&nodes, ni);
                        path.push(op.clone());
                        rep.violation(sig, what.clone(), json!({"initial": init_json(&inits[init].0), "ops": path.iter().map(op_to_json).collect::<Vec<_>>()}));
                    }
                    continue;
                }
                let mut limit_depth = None;
                if !vd.clean() {
                    if count_it {
                        rep.bump("pruned_by_other_property", 1);
                    }
                    // C09/C10: a state whose *view* is off (C08 reports that) is still expanded by one more
                    // operation, because what later operations then do to the message, and how they fail, is
                    // this property's business (a stale flag or offset shows as a wrong effect one call later)
                    let only_c08 = vd.c08.is_some() && vd.c09.is_none() && vd.c10.is_none();
                    if mode == Mode::C08 || !only_c08 {
                        continue;
                    }
                    limit_depth = Some(level + 2);
                }
                if let Some(n) = vd.next {
                    if n.packet.is_none() || decode(n.packet.as_ref().unwrap()).is_err() {
                        continue;
                    }
                    let f = fp(&n);
                    if level == 0 && (f % ctx.nshards as u128) as usize != ctx.shard {
                        continue; // another worker owns this depth-1 state and its subtree
                    }
                    if seen.insert(f) {
                        rep.states += 1;
                        if level + 1 < depth {
                            let (init, maxdepth) = (nodes[ni].init, nodes[ni].maxdepth);
                            let maxdepth = limit_depth.map(|l| l.min(maxdepth)).unwrap_or(maxdepth);
                            nodes.push(Node { snap: n, parent: Some(ni), op: Some(op.clone()), init, maxdepth });
                        }
                        if rep.samples.len() < MAX_SAMPLES && rep.states % 1999 == 0 {
                            let (init, mut path) = path_of(&nodes, ni);
                            path.push(op.clone());
                            rep.sample(|| json!({"initial": init_json(&inits[init].0), "ops": path.iter().map(op_to_json).collect::<Vec<_>>(), "outcome": vd.class}));
                        }
                    }
                }
            }
        }
        if capped {
            rep.cap(format!("depth {} not completed (time budget or state cap {}); completed depth {}", level + 1, cap, completed_depth));
            break;
        }
        completed_depth = level + 1;
        level_start = level_end;
    }
    rep.bump(&format!("completed_depth_{}", completed_depth), 1);
}

fn replay(case: &Value, mode: Mode) -> Result<String, String> {
    let init = init_from(&case["initial"]);
    let ops: Vec<Op> = case["ops"].as_array().map(|a| a.iter().map(op_from_json).collect()).unwrap_or_default();
    let mut s = init_snap(&init).ok_or("initial state cannot be built")?;
    {
        let j = init_json(&init).to_string();
        println!("initial: {}", if j.len() > 400 { format!("{}...({} chars)", &j[..400], j.len()) } else { j });
    }
    if ops.is_empty() {
        return view_check(&s).map(|_| "initial view fine".into()).map_err(|(sig, w)| format!("[{}] {}", sig, w));
    }
    for (i, op) in ops.iter().enumerate() {
        println!("op {}: {}", i, op_to_json(op));
        let vd = guarded(|| exec_op(&s, op));
        println!("   outcome: {} ; C08={:?} C09={:?} C10={:?}", vd.class, vd.c08.as_ref().map(|x| &x.0), vd.c09.as_ref().map(|x| &x.0), vd.c10.as_ref().map(|x| &x.0));
        if i + 1 == ops.len() {
            return match pick(&vd, mode) {
                Some((sig, w)) => Err(format!("[{}] {}", sig, w)),
                None => Ok("last operation judged fine for this property".into()),
            };
        }
        // as in the search: C09/C10 paths may run through one state whose only problem is its view
        let only_c08 = vd.c08.is_some() && vd.c09.is_none() && vd.c10.is_none();
        if !vd.clean() && (mode == Mode::C08 || !only_c08) {
            return Ok(format!("path no longer clean at op {} (another violation earlier on the path)", i));
        }
        match vd.next {
            Some(n) => s = n,
            None => return Ok(format!("path ends at op {}", i)),
        }
    }
    Ok("done".into())
}
