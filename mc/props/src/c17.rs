//! C17: results depend only on the arguments, never on earlier or concurrent calls.

use crate::engine::*;
use crate::sched::*;
use crate::PropDef;
use dnssector::*;
use refmodel::gen::*;
use refmodel::msg::*;
use refmodel::wire::*;
use serde_json::{json, Value};
use std::sync::{Arc, Mutex};

pub fn def() -> PropDef {
    PropDef {
        id: "C17",
        rule: "histories: for a corpus of (function, argument) items over parse/uncompress/compress/rename/RR::from_string/raw_name_from_str/query/insert_rr/set_raw_name, the result of every item computed in a fresh process is the baseline; every ordered pair (and, thorough, triple) g(y); f(x) run back to back on one thread, and every ordered triple of calls of the same function over up to 14 arguments each, must reproduce the baselines. schedules: 2 (thorough: also 3) real threads each running one item with the library's yield points (per name emitted / copied / replaced, per record parsed) as scheduling points, every interleaving with at most 2 (thorough 3) preemptions; randomness: empty()/query() twice differ at most in the id. supplementary, outside the exhaustive claim: the concurrent items on 4 free-running threads (sampling; reaches windows without a yield point). distinct classes = (kind, function pair, outcome kinds)",
        run,
        replay,
        bounds: |t| json!({"corpus_items": items().len(), "concurrent_items": conc_items().len(), "history_length": t.pick(2, 3), "threads": t.pick(vec![2], vec![2, 3]), "preemption_bound": t.pick(2, 3), "max_executions_per_tuple": 30000}),
        assumptions: &["scheduling granularity = the hook points inside the library; baseline = a fresh process per item", "the free-running pass is sampling: it can only add detections, it is not counted in states/transitions and its silence is no evidence"],
        budget_s: |t| t.pick(75, 1200),
        exhaustive: true,
        nshards: 16,
        post: |rep, _| {
            let mut v = vec![];
            for need in ["seq ", "conc ", "random "] {
                if !rep.classes.keys().any(|k| k.starts_with(need)) {
                    v.push(format!("no explored case of kind {}", need));
                }
            }
            v
        },
    }
}

#[derive(Clone, Debug)]
pub enum Item {
    Parse(Vec<u8>),
    Uncompress(Vec<u8>),
    Compress(Vec<u8>),
    Rename(Vec<u8>, Name, Name, bool),
    FromString(String),
    /// raw_name_from_str(text, zone)
    NameFromStr(Vec<u8>, Option<Name>),
    /// query(name, A, IN) without its transaction id
    Query(Vec<u8>),
    /// parse the packet, insert the question b.a/A/IN (or, with a question present, one more answer), return bytes
    Insert(Vec<u8>),
    /// parse the packet, give its first answer this raw name, return bytes
    SetName(Vec<u8>, Vec<u8>),
}

impl Item {
    fn fname(&self) -> &'static str {
        match self {
            Item::Parse(_) => "parse",
            Item::Uncompress(_) => "uncompress",
            Item::Compress(_) => "compress",
            Item::Rename(..) => "rename",
            Item::FromString(_) => "from_string",
            Item::NameFromStr(..) => "raw_name_from_str",
            Item::Query(_) => "query",
            Item::Insert(_) => "insert_rr",
            Item::SetName(..) => "set_raw_name",
        }
    }
    fn to_json(&self) -> Value {
        match self {
            Item::Parse(x) => json!({"f": "parse", "x": hex(x)}),
            Item::Uncompress(x) => json!({"f": "uncompress", "x": hex(x)}),
            Item::Compress(x) => json!({"f": "compress", "x": hex(x)}),
            Item::Rename(x, t, s, m) => json!({"f": "rename", "x": hex(x), "t": hex(t), "s": hex(s), "m": m}),
            Item::FromString(t) => json!({"f": "from_string", "text": t}),
            Item::NameFromStr(t, z) => json!({"f": "raw_name_from_str", "x": hex(t), "z": z.as_ref().map(|z| hex(z))}),
            Item::Query(t) => json!({"f": "query", "x": hex(t)}),
            Item::Insert(x) => json!({"f": "insert_rr", "x": hex(x)}),
            Item::SetName(x, n) => json!({"f": "set_raw_name", "x": hex(x), "t": hex(n)}),
        }
    }
    fn from_json(v: &Value) -> Item {
        let h = |k: &str| unhex(v[k].as_str().unwrap_or(""));
        match v["f"].as_str().unwrap_or("") {
            "parse" => Item::Parse(h("x")),
            "uncompress" => Item::Uncompress(h("x")),
            "compress" => Item::Compress(h("x")),
            "rename" => Item::Rename(h("x"), h("t"), h("s"), v["m"].as_bool().unwrap_or(false)),
            "raw_name_from_str" => Item::NameFromStr(h("x"), v["z"].as_str().map(unhex)),
            "query" => Item::Query(h("x")),
            "insert_rr" => Item::Insert(h("x")),
            "set_raw_name" => Item::SetName(h("x"), h("t")),
            _ => Item::FromString(v["text"].as_str().unwrap_or("").to_string()),
        }
    }
}

pub fn eval(it: &Item) -> String {
    // a call that loops (e.g. an unchecked reader fed a packet that should have been rejected) must end as an
    // observable result, not as a hung worker: the hook counter doubles as a step ceiling
    crate::subj::arm_ceiling(3_000_000);
    let s = eval_inner(it);
    crate::subj::disarm_steps();
    s
}

fn eval_inner(it: &Item) -> String {
    let r = caught(|| match it {
        Item::Parse(x) => match crate::subj::parse(x) {
            Ok(p) => format!("ok:{}:{:?}", hex(p.packet()), crate::bfs_model::snap(&p)),
            Err(e) => format!("err:{}", e),
        },
        Item::Uncompress(x) => match Compress::uncompress(x) {
            Ok(u) => format!("ok:{}", hex(&u)),
            Err(e) => format!("err:{}", e),
        },
        Item::Compress(x) => match Compress::compress(x) {
            Ok(u) => format!("ok:{}", hex(&u)),
            Err(e) => format!("err:{}", e),
        },
        Item::Rename(x, t, s, m) => match crate::subj::parse(x) {
            Ok(mut p) => match Renamer::rename_with_raw_names(&mut p, t, s, *m) {
                Ok(u) => format!("ok:{}", hex(&u)),
                Err(e) => format!("err:{}", e),
            },
            Err(e) => format!("perr:{}", e),
        },
        Item::FromString(t) => match r#gen::RR::from_string(t) {
            Ok(rr) => format!("ok:{}", hex(&rr.packet)),
            Err(e) => format!("err:{}", e),
        },
        Item::NameFromStr(t, z) => match r#gen::raw_name_from_str(t, z.as_deref()) {
            Ok(n) => format!("ok:{}", hex(&n)),
            Err(e) => format!("err:{}", e),
        },
        Item::Insert(x) => match if x.len() == 12 {
            // a header alone is not a packet the parser takes: a synthesised empty packet given these header bytes
            let mut e = ParsedPacket::empty();
            e.packet_mut()[..4].copy_from_slice(&x[..4]);
            Ok(e)
        } else {
            crate::subj::parse(x)
        } {
            Ok(mut p) => {
                let r = if p.offset_question.is_none() {
                    r#gen::RR::new_question(b"b.a", Type::A, Class::IN).and_then(|rr| p.insert_rr(Section::Question, rr))
                } else {
                    p.insert_rr_from_string(Section::Answer, "b.a. 7 IN A 1.2.3.4")
                };
                match r {
                    Ok(()) => format!("ok:{}", hex(p.packet())),
                    Err(e) => format!("err:{}:{}", e, hex(p.packet())),
                }
            }
            Err(e) => format!("perr:{}", e),
        },
        Item::SetName(x, n) => match crate::subj::parse(x) {
            Ok(mut p) => {
                let r = match p.into_iter_answer() {
                    Some(mut it) => it.set_raw_name(n).map_err(|e| e.to_string()),
                    None => Err("no answer".to_string()),
                };
                match r {
                    Ok(()) => format!("ok:{}", hex(p.packet())),
                    Err(e) => format!("err:{}:{}", e, hex(p.packet())),
                }
            }
            Err(e) => format!("perr:{}", e),
        },
        Item::Query(t) => match r#gen::query(t, Type::A, Class::IN) {
            Ok(p) => format!("ok:{}:{:?}", hex(&p.packet()[2..]), {
                let mut s = crate::bfs_model::snap(&p);
                s.packet = None;
                s
            }),
            Err(e) => format!("err:{}", e),
        },
    });
    match r {
        Ok(s) => s,
        Err(p) => format!("panic:{}", p),
    }
}

fn packets() -> Vec<Vec<u8>> {
    let mut v = vec![kitchen_sink(Strategy::Max), kitchen_sink(Strategy::Plain), kitchen_sink(Strategy::Chain)];
    let l5 = crate::c06::l5_packets();
    // dictionary-filling packets first (a call that fills or wraps a 32-entry table, then calls sharing names)
    for (fam, p) in l5.iter().filter(|(f, _)| *f == "many") {
        let _ = fam;
        v.push(p.clone());
    }
    if let Some((_, p)) = l5.iter().filter(|(f, _)| *f == "nest").last() {
        v.push(p.clone());
    }
    if let Some((_, p)) = l5.iter().find(|(f, _)| *f == "case") {
        v.push(p.clone());
    }
    {
        // shares suffixes with the "many" family: l3.d, l30.d, q.zone
        let mut m = base_msg(&nm("q.zone"), T_A, true);
        for i in [3usize, 30, 35] {
            m.an.push(mx_rec(&name_from_labels(&[format!("l{}", i).as_bytes(), b"d"]), 1, 1, &nm("mail.q.zone")));
        }
        v.push(encode(&m, Strategy::Plain));
    }
    for s in closure_seeds(0).into_iter().take(3) {
        v.push(s);
    }
    let mut bad = kitchen_sink(Strategy::Max);
    bad[20] = 0xc0;
    v.push(bad);
    v.push(vec![0u8; 5]);
    v.truncate(16);
    v
}

pub fn items() -> Vec<Item> {
    let mut v = vec![];
    for p in packets() {
        v.push(Item::Parse(p.clone()));
        v.push(Item::Uncompress(p.clone()));
        if let Ok(u) = Compress::uncompress(&p) {
            v.push(Item::Compress(u));
        } else {
            v.push(Item::Compress(p.clone()));
        }
        v.push(Item::Rename(p.clone(), nm("renamed.example.net"), nm("example.com"), true));
        v.push(Item::Rename(p.clone(), nm("z"), nm("b.a"), false));
    }
    // calls that fail late (after part of the work was done) followed by calls sharing their names:
    // state left behind by an aborted call is the classic way purity breaks
    {
        let ex = nm("example.com");
        let mut m = base_msg(&ex, T_A, true);
        m.an.push(a_rec(&ex, 1, [1, 2, 3, 4]));
        m.an.push(name_rec(&nm("www.example.com"), T_CNAME, 1, &nm("mail.example.com")));
        m.ns.push(soa_rec(&ex, 1, &nm("ns.example.com"), &nm("admin.example.com")));
        m.ar.push(mx_rec(&ex, 1, 1, &nm("mail.example.com")));
        // a 252-byte target ending in example.net: the question still fits, www.<target> does not
        let mut long = name_of_wire_len(252 - 13);
        long.pop();
        long.extend_from_slice(&nm("example.net"));
        for strat in [Strategy::Max, Strategy::Plain] {
            let p = encode(&m, strat);
            v.push(Item::Rename(p.clone(), long.clone(), ex.clone(), true));
            v.push(Item::Rename(p.clone(), nm("renamed.example.net"), ex.clone(), true));
            v.push(Item::Rename(p.clone(), nm("example.net"), ex.clone(), true));
            v.push(Item::Compress(encode(&m, Strategy::Plain)));
            let mut cut = p.clone();
            let l = cut.len();
            cut.truncate(l - 3); // parse / uncompress / rename fail at the last record
            v.push(Item::Parse(cut.clone()));
            v.push(Item::Uncompress(cut.clone()));
            v.push(Item::Rename(cut, nm("example.net"), ex.clone(), true));
        }
        let mut renamed = base_msg(&nm("renamed.example.net"), T_A, true);
        renamed.an.push(name_rec(&nm("www.renamed.example.net"), T_CNAME, 1, &nm("mail.example.net")));
        v.push(Item::Compress(encode(&renamed, Strategy::Plain)));
        v.push(Item::Rename(encode(&renamed, Strategy::Max), nm("example.com"), nm("example.net"), true));
    }
    // twin packets of the same length in which a region changes from "a name" to opaque bytes that are no
    // name, still pointed at by a later record: anything remembered about one must not leak into the other
    {
        let mk = |t: u16, rd: [u8; 5]| {
            let mut p = vec![0x12, 0x34, 0x81, 0x80, 0, 1, 0, 2, 0, 0, 0, 0, 1, b'q', 1, b'a', 0, 0, 1, 0, 1];
            p.extend_from_slice(&[0xc0, 12]);
            p.extend_from_slice(&t.to_be_bytes());
            p.extend_from_slice(&[0, 1, 0, 0, 0, 1, 0, 5]);
            let x = p.len();
            p.extend_from_slice(&rd);
            p.extend_from_slice(&[0xc0, x as u8, 0, 1, 0, 1, 0, 0, 0, 1, 0, 4, 1, 2, 3, 4]);
            p
        };
        let good = mk(T_NS, [1, b'x', 1, b'y', 0]);
        let opaque_bad = mk(T_TXT, [4, b'.', b'.', b'.', b'.']);
        let opaque_other = mk(T_TXT, [1, b'x', 1, b'z', 0]);
        for _ in 0..2 {
            v.push(Item::Parse(good.clone()));
            v.push(Item::Parse(opaque_bad.clone()));
            v.push(Item::Parse(good.clone()));
            v.push(Item::Parse(opaque_other.clone()));
            v.push(Item::Uncompress(good.clone()));
            v.push(Item::Uncompress(opaque_bad.clone()));
        }
    }
    // record texts prone to collide through leftover state: case twins of the same owner and of the same
    // rdata names, and texts that pass the grammar but fail when the record is built (owner too long)
    {
        let long_owner = refmodel::text::name_with_wire_len(253) + ".toolong";
        for (a, b) in [("Case.Example", "case.example"), ("case.example.", "CASE.EXAMPLE.")] {
            for body in ["A 1.2.3.4", "TXT \"first\"", "MX 5 Mail.Case.Example", "SOA Ns.Case.Example. admin.case.example. ( 1 2 3 4 5 )", "DS 1 2 3 abcd", "NS ns.CASE.example"] {
                v.push(Item::FromString(format!("{} 7 IN {}", a, body)));
                v.push(Item::FromString(format!("{} 7 IN {}", b, body.to_ascii_lowercase().replace("in ", "IN "))));
            }
        }
        for body in ["A 1.2.3.4", "TXT \"stale-data\"", "MX 5 mail.case.example", "DS 1 2 3 ffff"] {
            v.push(Item::FromString(format!("{} 7 IN {}", long_owner, body)));
        }
        v.push(Item::FromString("ok.example 7 IN TXT \"hello\"".to_string()));
        v.push(Item::FromString("ok.example 7 IN MX 5 mail.ok.example".to_string()));
    }
    // an OPT record that repeats an option code among three distinct ones (whatever a rename does with the
    // options must not depend on anything but the bytes)
    {
        let mut m = base_msg(&nm("b.a"), T_A, true);
        m.an.push(a_rec(&nm("b.a"), 1, [1, 2, 3, 4]));
        m.ar.push(opt_rec(1232, 0, 0, 0x8000, &[(10, vec![1]), (12, vec![]), (10, vec![2, 2]), (8, vec![0, 1, 0, 0]), (15, vec![0, 9]), (10, vec![3])]));
        for st in [Strategy::Max, Strategy::Plain] {
            let p = encode(&m, st);
            v.push(Item::Rename(p.clone(), nm("z.y"), nm("b.a"), true));
            v.push(Item::Rename(p.clone(), nm("k"), nm("nomatch"), false));
            v.push(Item::Uncompress(p.clone()));
            v.push(Item::Parse(p));
        }
    }
    // plain queries: nothing to compress, nothing to expand, nothing to rename (calls that "do nothing" are the
    // ones a streak counter or an adaptive shortcut would count)
    for q in ["b.a", "x.y.z", "example.com"] {
        let m = base_msg(&nm(q), T_A, false);
        let p = encode(&m, Strategy::Plain);
        v.push(Item::Compress(p.clone()));
        v.push(Item::Uncompress(p.clone()));
        v.push(Item::Rename(p.clone(), nm("k"), nm("nomatch"), false));
        v.push(Item::Parse(p));
    }
    // owner-name changes with names that a weak hash cannot tell apart: a valid name and an invalid one of the
    // same length whose bytes differ by (+1, -31) or (+1, -33) in two neighbouring positions (the classic
    // collisions of h*31+c and h*33+c), and case twins
    {
        let mut m = base_msg(&nm("b.a"), T_A, true);
        m.an.push(a_rec(&nm("b.a"), 1, [1, 2, 3, 4]));
        let host = encode(&m, Strategy::Max);
        for n in [&[3u8, b'a', b'M', b'c', 3, b'c', b'o', b'm', 0][..], &[3, b'b', b'.', b'c', 3, b'c', b'o', b'm', 0], &[3, b'a', b'O', b'c', 3, b'c', b'o', b'm', 0], &[3, b'b', b'.', b'c', 3, b'c', b'o', b'm', 0], &[3, b'A', b'm', b'C', 3, b'c', b'o', b'm', 0], &[3, b'a', b'{', b'c', 3, b'c', b'o', b'm', 0], &[3, b'b', b'\\', b'c', 3, b'c', b'o', b'm', 0]] {
            v.push(Item::SetName(host.clone(), n.to_vec()));
        }
    }
    // insertion into packets with special transaction ids (0, 0xffff), with and without a question
    for id in [0u16, 0xffff, 0x1234] {
        for resp in [false, true] {
            let mut noq = vec![(id >> 8) as u8, id as u8, if resp { 0x80 } else { 0x01 }, 0, 0, 0, 0, 0, 0, 0, 0, 0];
            v.push(Item::Insert(noq.clone()));
            noq[5] = 1;
            noq.extend_from_slice(&[1, b'b', 1, b'a', 0, 0, 1, 0, 1]);
            v.push(Item::Insert(noq));
        }
    }
    // host-name conversion and query synthesis: case twins, zone / no zone, failures between successes
    {
        let zone = Some(nm("example.com"));
        for (t, z) in [("www", zone.clone()), ("WWW", zone.clone()), ("www.", zone.clone()), ("www", None), ("a..b", None), ("www", Some(nm("other.org"))), ("", zone.clone()), ("mail.www", zone.clone())] {
            v.push(Item::NameFromStr(t.as_bytes().to_vec(), z));
        }
        v.push(Item::NameFromStr(refmodel::text::name_with_wire_len(253).into_bytes(), None));
        v.push(Item::NameFromStr((refmodel::text::name_with_wire_len(253) + ".x").into_bytes(), None));
        v.push(Item::NameFromStr(b"www".to_vec(), zone));
        for q in ["b.a", "B.A", "a..b", "b.a."] {
            v.push(Item::Query(q.as_bytes().to_vec()));
        }
    }
    // texts that end inside a bracketed SOA, and texts with vertical whitespace where only blanks are allowed:
    // whatever the text parser keeps across calls (a nesting depth, a mode) shows in the call after
    for t in ["a. 1 IN SOA ns.a. admin.a. ( 1 2 3", "a. 1 IN SOA ns.a. admin.a. (", "x. 1 IN A 1.2.3.4\n", "x. 1\nIN A 1.2.3.4", "x. 1 IN\x0bA 1.2.3.4", "x. 1 IN TXT \"a\"\x0c", "a. 1 IN SOA ns.a. admin.a. ( 1 2 3 4 5 ) )", "x. 1 IN A 1.2.3.4\r\n"] {
        v.push(Item::FromString(t.to_string()));
    }
    // a packet that fails only after all of its names were looked at, and packets of the same layout in which
    // one of those offsets holds a pointer to itself (what a parse remembers about offsets of a packet it gave
    // up on must not reach the next one)
    {
        let q = [3u8, b'f', b'o', b'o', 0, 0, 1, 0, 1];
        let hdr = |id: u8| vec![0u8, id, 0x81, 0x80, 0, 1, 0, 1, 0, 0, 0, 0];
        let mut valid = hdr(1);
        valid.extend_from_slice(&q);
        valid.extend_from_slice(&[3, b'b', b'a', b'r', 0, 0, 1, 0, 1, 0, 0, 0, 60, 0, 4, 1, 2, 3, 4]);
        let mut stray = valid.clone();
        stray.push(0xff);
        let mut cut = valid.clone();
        cut.pop();
        let mut own = hdr(2);
        own.extend_from_slice(&q);
        own.extend_from_slice(&[0xc0, 21, 0, 1, 0, 1, 0, 0, 0, 60, 0, 4, 1, 2, 3, 4]);
        let mut into_q = hdr(4);
        into_q.extend_from_slice(&[0xc0, 12, 0, 1, 0, 1]);
        into_q.extend_from_slice(&[0xc0, 12, 0, 1, 0, 1, 0, 0, 0, 60, 0, 4, 1, 2, 3, 4]);
        let selfq = vec![0u8, 3, 1, 0, 0, 1, 0, 0, 0, 0, 0, 0, 0xc0, 12, 0, 1, 0, 1];
        for p in [stray, own, selfq, cut, into_q, valid] {
            v.push(Item::Parse(p.clone()));
            v.push(Item::Uncompress(p));
        }
    }
    // record data of one type in several sizes, long ones first (a scratch buffer that only grows), valid
    // and refused
    for t in [
        "d. 1 IN DS 1 2 3 00112233445566778899aabbccddeeff00112233445566778899aabbccddeeff",
        "d. 1 IN DS 1 2 3 00112233445566778899aabbccddeeff0011223",
        "d. 1 IN DS 1 2 3 0011223344556677889900112233445566778899",
        "d. 1 IN DS 1 2 3 ab",
        "d. 1 IN TXT \"0123456789012345678901234567890123456789012345678901234567890123456789\"",
        "d. 1 IN TXT \"x\"",
        "d. 1 IN TXT \"\"",
        "d. 1 IN AAAA 2001:db8:1:2:3:4:5:6",
        "d. 1 IN AAAA ::",
        "d. 1 IN MX 1 aaaaaaaaaaaaaaaaaaaaaaaaaaaaaa.bbbbbbbbbbbbbbbbbbbbbbbbbbbbbb.cccccccccccccccccccc",
        "d. 1 IN MX 1 m",
        "d. 1 IN SOA aaaaaaaaaaaaaaaaaaaaaaaaaaaaaa.bbbbbbbbbbbbbbbbbbbbbbbb bbbbbbbbbbbbbbbbbbbbbbbbbbbbbbbbbb.c ( 4000000000 4000000000 4000000000 4000000000 4000000000 )",
        "d. 1 IN SOA a b ( 1 1 1 1 1 )",
    ] {
        v.push(Item::FromString(t.to_string()));
    }
    for t in ["x. 60 IN A 1.2.3.4", "a.b. 1 IN MX 10 mail.a.b.", "a. 1 IN SOA ns.a. admin.a. ( 1 2 3 4 5 )", "x. 0 IN TXT \"hello\\032world\"", "x. 1 IN DS 1 2 3 abcd", "x. 1 IN AAAA 2001:db8::1", "x. 1 IN NS", "", "x. 4294967296 IN A 1.2.3.4", "b.a 5 in cname c.b.a"] {
        v.push(Item::FromString(t.to_string()));
    }
    v
}

/// small items for the interleaving exploration (few yield points each)
pub fn conc_items() -> Vec<Item> {
    let a = nm("a");
    let ba = nm("b.a");
    let mut m = base_msg(&ba, T_A, true);
    m.an.push(name_rec(&ba, T_CNAME, 1, &a));
    m.ar.push(mx_rec(&a, 1, 1, &ba));
    let mut m2 = base_msg(&nm("x.y"), T_A, true);
    m2.an.push(name_rec(&nm("x.y"), T_NS, 1, &nm("z.x.y")));
    m2.ns.push(soa_rec(&nm("y"), 1, &nm("x.y"), &nm("z.x.y")));
    vec![
        Item::Compress(encode(&m, Strategy::Plain)),
        Item::Compress(encode(&m2, Strategy::Plain)),
        Item::Uncompress(encode(&m, Strategy::Max)),
        Item::Uncompress(encode(&m2, Strategy::Max)),
        Item::Rename(encode(&m, Strategy::Max), nm("k"), a.clone(), true),
        Item::Rename(encode(&m2, Strategy::Plain), nm("q.r"), nm("x.y"), true),
        Item::Parse(encode(&m2, Strategy::Max)),
        Item::Parse(encode(&m2, Strategy::Plain)),
        Item::Parse({
            // compressed records first, then a record without any pointer: a parse that has seen pointers
            // and still has work to do when another thread's call starts
            let mut m3 = base_msg(&ba, T_A, true);
            m3.an.push(name_rec(&ba, T_CNAME, 1, &a));
            m3.ar.push(a_rec(&nm("zz"), 1, [4, 4, 4, 4]));
            m3.ar.push(a_rec(&nm("yy"), 1, [5, 5, 5, 5]));
            encode(&m3, Strategy::Max)
        }),
        Item::FromString("a. 1 IN SOA ns.a. admin.a. ( 1 2 3 4 5 )".to_string()),
        Item::FromString("B.a. 2 IN MX 5 Mail.b.a.".to_string()),
        // packets whose OPT record carries options, parsed on both threads
        Item::Parse({
            let mut mo = base_msg(&ba, T_A, true);
            mo.ar.push(opt_rec(1232, 0, 0, 0x8000, &[(10, vec![1, 2, 3]), (12, vec![]), (15, vec![0, 9])]));
            encode(&mo, Strategy::Max)
        }),
        Item::Parse({
            let mut mo = base_msg(&a, T_A, false);
            mo.ar.push(opt_rec(4096, 0, 0, 0, &[(8, vec![0, 1, 24, 0, 10, 0, 0])]));
            encode(&mo, Strategy::Plain)
        }),
        // a packet that drives the compressor to its pointer-chain limit (names nested 19 deep)
        Item::Compress(crate::c06::l5_packets().into_iter().filter(|(f, _)| *f == "nest").nth(36).map(|(_, p)| p).unwrap()),
        Item::Compress(encode(&base_msg(&nm("b.a"), T_A, false), Strategy::Plain)),
        Item::NameFromStr(b"www".to_vec(), Some(nm("b.a"))),
        Item::NameFromStr(b"Mail.b.a.".to_vec(), None),
        Item::Query(b"b.a".to_vec()),
    ]
}

/// baseline of every item, each computed by a fresh process
fn baselines(its: &[Item], which: &str) -> Result<Vec<String>, String> {
    let exe = std::env::current_exe().map_err(|e| e.to_string())?;
    let mut out = vec![];
    for i in 0..its.len() {
        let o = std::process::Command::new(&exe).args(["c17-eval", which, &i.to_string()]).env_remove("RUST_BACKTRACE").output().map_err(|e| e.to_string())?;
        if !o.status.success() {
            return Err(format!("baseline process for item {} failed: {:?}", i, o.status));
        }
        out.push(String::from_utf8_lossy(&o.stdout).trim().to_string());
    }
    Ok(out)
}

pub fn eval_main(which: &str, idx: usize) {
    install_panic_hook();
    let its = if which == "conc" { conc_items() } else { items() };
    println!("{}", eval(&its[idx]));
}

fn kind_of(s: &str) -> &str {
    s.split(':').next().unwrap_or("")
}

fn run(ctx: &mut Ctx, rep: &mut Report) {
    let its = items();
    let base = match baselines(&its, "seq") {
        Ok(b) => b,
        Err(e) => {
            rep.vacuity.push(e);
            return;
        }
    };
    let n = its.len();
    // sequential histories: this worker's calls form ONE history on ONE thread; every call's result is
    // compared with its fresh-process baseline, and on a mismatch the whole history so far is the case
    let mut gi = 0u64;
    let mut log: Vec<usize> = vec![];
    let mut reported = 0;
    let mut check = |rep: &mut Report, log: &Vec<usize>, i: usize, r: &String| {
        if *r != base[i] && reported < 6 {
            reported += 1;
            rep.violation(&format!("history_dependent:{}", its[i].fname()), format!("{} gives a different result at position {} of a history of calls on one thread than in a fresh process (previous call: {})", its[i].fname(), log.len(), log.iter().rev().nth(1).map(|&k| its[k].fname()).unwrap_or("-")), json!({"kind": "seqlog", "log": log}));
        }
    };
    for g in 0..n {
        for f in 0..n {
            gi += 1;
            if !ctx.mine(gi) {
                continue;
            }
            if ctx.journaling() {
                ctx.journal(|| json!({"kind": "seqlog", "log": log.iter().chain([g, f].iter()).collect::<Vec<_>>()}));
            }
            log.push(g);
            let r0 = eval(&its[g]);
            check(rep, &log, g, &r0);
            log.push(f);
            let r = eval(&its[f]);
            check(rep, &log, f, &r);
            rep.transitions += 2;
            rep.states += 1;
            rep.class(&format!("seq {}>{} {}", its[g].fname(), its[f].fname(), kind_of(&r)));
            if ctx.tier == Tier::Thorough {
                for h in (g % 7..n).step_by(7) {
                    log.push(h);
                    let r1 = eval(&its[h]);
                    check(rep, &log, h, &r1);
                    log.push(f);
                    let r2 = eval(&its[f]);
                    check(rep, &log, f, &r2);
                    rep.transitions += 2;
                }
            }
        }
    }
    // every ordered triple of calls of the SAME function (x; y; z back to back): what a function remembers about
    // its own recent calls (a streak counter, a last-argument memo, an adaptive threshold) shows here
    {
        let mut by_fn: std::collections::BTreeMap<&'static str, Vec<usize>> = Default::default();
        for (i, it) in its.iter().enumerate() {
            by_fn.entry(it.fname()).or_default().push(i);
        }
        for (fname, idx) in by_fn.iter() {
            // at most 14 arguments per function, spread over the corpus
            let step = (idx.len() + 13) / 14;
            let pick: Vec<usize> = idx.iter().step_by(step.max(1)).cloned().collect();
            for &x in &pick {
                for &y in &pick {
                    gi += 1;
                    if !ctx.mine(gi) || ctx.timed_out() {
                        continue;
                    }
                    for &z in &pick {
                        for &i in [x, y, z].iter() {
                            log.push(i);
                            let r = eval(&its[i]);
                            check(rep, &log, i, &r);
                        }
                        rep.transitions += 3;
                    }
                    rep.states += 1;
                }
            }
            rep.class(&format!("seq3 same-function {}", fname));
        }
    }
    rep.bump("sequential_history_length", log.len() as u64);
    if rep.samples.len() < MAX_SAMPLES && ctx.shard == 0 {
        rep.sample(|| json!({"kind": "seqlog", "first_calls": log.iter().take(8).map(|&i| its[i].fname()).collect::<Vec<_>>(), "history_length": log.len()}));
    }
    // randomness
    if ctx.shard == 0 {
        let (a, b) = (ParsedPacket::empty(), ParsedPacket::empty());
        rep.class("random empty");
        rep.transitions += 2;
        if a.packet()[2..] != b.packet()[2..] || a.packet().len() != 12 {
            rep.violation("empty_differs_beyond_id", "two fresh empty packets differ in more than the transaction id".into(), json!({"kind": "random"}));
        }
        let q1 = r#gen::query(b"b.a", Type::A, Class::IN).map(|p| p.packet().to_vec());
        let q2 = r#gen::query(b"b.a", Type::A, Class::IN).map(|p| p.packet().to_vec());
        match (q1, q2) {
            (Ok(a), Ok(b)) if a.len() == b.len() && a[2..] == b[2..] => rep.class("random query"),
            _ => rep.violation("query_differs_beyond_id", "two synthesised queries differ in more than the transaction id".into(), json!({"kind": "random"})),
        }
    }
    // concurrent schedules
    let cits = conc_items();
    let cbase = match baselines(&cits, "conc") {
        Ok(b) => b,
        Err(e) => {
            rep.vacuity.push(e);
            return;
        }
    };
    // supplementary pass, NOT part of the exhaustive claim: the same items on free-running threads (no
    // baton), which reaches windows between two adjacent synchronisation operations where the library has
    // no yield point. Sampling: silence here proves nothing; a mismatch is a real observation.
    if !ctx.timed_out() {
        let rounds = ctx.tier.pick(1, 6);
        let iters = ctx.tier.pick(1500, 6000);
        for round in 0..rounds {
            rep.bump("free_running_calls_sampled", (FREE_THREADS * iters) as u64);
            if let Some((i, got)) = free_running(&cits, &cbase, iters, ctx.shard as usize + round) {
                rep.violation(&format!("free_running:{}", cits[i].fname()), format!("{} on free-running threads (sampling pass) returned a result different from its fresh-process baseline: {}", cits[i].fname(), &got[..got.len().min(80)]), json!({"kind": "free", "iters": iters, "rot": ctx.shard as usize + round}));
                break;
            }
        }
        rep.class("free-running sampled");
    }
    let bound = ctx.tier.pick(2, 3);
    let m = cits.len();
    for a in 0..m {
        // quick: unordered pairs (which item starts is then decided by the schedule alone); thorough: both orders
        for b in (if ctx.tier == Tier::Thorough { 0 } else { a })..m {
            gi += 1;
            if !ctx.mine(gi) || ctx.timed_out() {
                continue;
            }
            // items with hundreds of yield points (the deeply nested compress) are explored with one preemption
            let heavy = |i: usize| matches!(&cits[i], Item::Compress(p) if p.len() > 600);
            explore_conc(ctx, rep, &[a, b], &cits, &cbase, if heavy(a) || heavy(b) { 1 } else { bound });
        }
    }
    if ctx.tier == Tier::Thorough {
        for a in 0..m {
            for b in 0..m {
                for c in [0usize, 3] {
                    gi += 1;
                    if !ctx.mine(gi) || ctx.timed_out() {
                        continue;
                    }
                    explore_conc(ctx, rep, &[a, b, c], &cits, &cbase, 2);
                }
            }
        }
    }
    if ctx.timed_out() {
        rep.cap("time budget reached".into());
    }
}

const FREE_THREADS: usize = 4;

/// FREE_THREADS uncontrolled threads, each evaluating the concurrent items round-robin (each thread starts at
/// a different item) `iters` times, then one more evaluation of every item on the calling thread. Returns
/// the first (item, result) that differs from the baseline.
fn free_running(cits: &[Item], cbase: &[String], iters: usize, rot: usize) -> Option<(usize, String)> {
    let bad: Arc<Mutex<Option<(usize, String)>>> = Arc::new(Mutex::new(None));
    let stop = Arc::new(std::sync::atomic::AtomicBool::new(false));
    let gate = Arc::new(std::sync::Barrier::new(FREE_THREADS));
    let mut hs = vec![];
    for t in 0..FREE_THREADS {
        let (cits, cbase, bad, stop, gate) = (cits.to_vec(), cbase.to_vec(), bad.clone(), stop.clone(), gate.clone());
        hs.push(std::thread::spawn(move || {
            // thread t alternates between two items so that different arguments of the same function collide
            let n = cits.len();
            let mine = [(t + rot) % n, (t + rot + 1 + (rot / n) % (n - 1)) % n];
            gate.wait();
            for k in 0..iters {
                if stop.load(std::sync::atomic::Ordering::Relaxed) {
                    break;
                }
                let i = mine[k % 2];
                let r = eval(&cits[i]);
                if r != cbase[i] {
                    stop.store(true, std::sync::atomic::Ordering::Relaxed);
                    bad.lock().unwrap().get_or_insert((i, r));
                    break;
                }
            }
        }));
    }
    for h in hs {
        let _ = h.join();
    }
    if let Some(b) = bad.lock().unwrap().clone() {
        return Some(b);
    }
    for (i, it) in cits.iter().enumerate() {
        let r = eval(it);
        if r != cbase[i] {
            return Some((i, r));
        }
    }
    None
}

fn execute(idx: &[usize], cits: &[Item], prefix: &[usize]) -> (Exec, Vec<String>) {
    let results: Arc<Mutex<Vec<String>>> = Arc::new(Mutex::new(vec![String::new(); idx.len()]));
    let mut bodies: Vec<Body> = vec![];
    for (ti, &i) in idx.iter().enumerate() {
        let it = cits[i].clone();
        let results = results.clone();
        bodies.push(Box::new(move |h: &Handle| {
            let h2 = h.clone();
            verif_hooks::set_callback(Some(Box::new(move |kind| {
                if kind != "check_compressed_name" && kind != "check_uncompressed_name" {
                    h2.point();
                }
            })));
            let r = eval(&it);
            verif_hooks::set_callback(None);
            results.lock().unwrap()[ti] = r;
        }));
    }
    let ex = run_schedule(bodies, prefix);
    let r = results.lock().unwrap().clone();
    (ex, r)
}

fn explore_conc(ctx: &mut Ctx, rep: &mut Report, idx: &[usize], cits: &[Item], cbase: &[String], bound: usize) {
    let mut stack: Vec<Vec<usize>> = vec![vec![]];
    let mut execs = 0u64;
    let mut maxpoints = 0usize;
    let names: Vec<&str> = idx.iter().map(|&i| cits[i].fname()).collect();
    while let Some(prefix) = stack.pop() {
        if execs >= 30000 || ctx.timed_out() {
            rep.cap(format!("execution cap or time budget reached for a tuple ({:?})", names));
            break;
        }
        if ctx.journaling() {
            ctx.journal(|| json!({"kind": "conc", "items": idx, "schedule": prefix}));
        }
        let (x, res) = execute(idx, cits, &prefix);
        execs += 1;
        rep.transitions += x.points.len() as u64;
        maxpoints = maxpoints.max(x.points.len());
        if x.hung {
            rep.notes.push(format!("an execution of {:?} could not be scheduled to completion", names));
            rep.bump("unschedulable_executions", 1);
            continue;
        }
        if x.diverged {
            continue;
        }
        let mut bad = None;
        for (ti, &i) in idx.iter().enumerate() {
            if res[ti] != cbase[i] {
                bad = Some((ti, i));
                break;
            }
        }
        if let Some((ti, i)) = bad {
            rep.violation(&format!("schedule_dependent:{}", cits[i].fname()), format!("thread {} running {} concurrently with {:?} returned a result different from its fresh-process baseline", ti, cits[i].fname(), names), json!({"kind": "conc", "items": idx, "schedule": x.choices}));
            break;
        }
        let mut used = 0usize;
        let mut pre: Vec<usize> = vec![];
        for (i, p) in x.points.iter().enumerate() {
            pre.push(used);
            if p.running_enabled && x.choices[i] != 0 {
                used += 1;
            }
        }
        for i in (prefix.len()..x.points.len()).rev() {
            let p = &x.points[i];
            for alt in 1..p.enabled.len() {
                let cost = pre[i] + if p.running_enabled { 1 } else { 0 };
                if cost > bound {
                    continue;
                }
                let mut np = x.choices[..i].to_vec();
                np.push(alt);
                stack.push(np);
            }
        }
    }
    rep.states += execs;
    rep.evaluations += execs;
    rep.bump("concurrent_executions", execs);
    rep.class(&format!("conc {} points<={}", names.join("|"), (maxpoints / 10 + 1) * 10));
    if rep.samples.len() < MAX_SAMPLES + 2 && execs > 100 {
        rep.samples.push(json!({"kind": "conc", "items": names, "executions": execs, "max_points": maxpoints, "preemption_bound": bound}));
    }
}

fn replay(case: &Value) -> Result<String, String> {
    match case["kind"].as_str() {
        Some("seqlog") => {
            let its = items();
            let log: Vec<usize> = case["log"].as_array().map(|a| a.iter().map(|x| x.as_u64().unwrap_or(0) as usize).collect()).unwrap_or_default();
            let last = *log.last().ok_or("empty history")?;
            // baseline in a fresh process: re-exec ourselves on the single item
            let tmp = std::env::temp_dir().join(format!("mc-c17-{}.json", std::process::id()));
            std::fs::write(&tmp, json!({"property": "C17", "case": {"kind": "single", "item": its[last].to_json()}}).to_string()).map_err(|e| e.to_string())?;
            let o = std::process::Command::new(std::env::current_exe().unwrap()).args(["replay", tmp.to_str().unwrap()]).output().map_err(|e| e.to_string())?;
            let _ = std::fs::remove_file(&tmp);
            let out = String::from_utf8_lossy(&o.stdout).to_string();
            let baseline = out.lines().find(|l| l.starts_with("RESULT ")).map(|l| l[7..].to_string()).ok_or("no baseline")?;
            let mut r = String::new();
            for &i in &log {
                r = eval(&its[i]);
            }
            println!("history of {} calls on one thread; last = {} ; tail: {:?}", log.len(), its[last].fname(), log.iter().rev().take(6).rev().map(|&i| its[i].fname()).collect::<Vec<_>>());
            if r != baseline {
                Err(format!("result after the history differs from the fresh-process result ({} vs {})", &r[..r.len().min(80)], &baseline[..baseline.len().min(80)]))
            } else {
                Ok("same result as in a fresh process".into())
            }
        }
        Some("single") => {
            let it = Item::from_json(&case["item"]);
            println!("RESULT {}", eval(&it));
            Ok("single item evaluated".into())
        }
        Some("free") => {
            let cits = conc_items();
            let cbase = baselines(&cits, "conc")?;
            let iters = case["iters"].as_u64().unwrap_or(1500) as usize;
            let rot = case["rot"].as_u64().unwrap_or(0) as usize;
            for round in 0..40 {
                if let Some((i, got)) = free_running(&cits, &cbase, iters, rot) {
                    println!("round {}: {} returned {}", round, cits[i].fname(), &got[..got.len().min(120)]);
                    return Err(format!("{} on free-running threads returned a result different from its fresh-process baseline (seen in round {} of at most 40)", cits[i].fname(), round));
                }
            }
            Ok("not reproduced in 40 free-running rounds (this pass samples)".into())
        }
        Some("conc") => {
            let cits = conc_items();
            let idx: Vec<usize> = case["items"].as_array().map(|a| a.iter().map(|x| x.as_u64().unwrap_or(0) as usize).collect()).unwrap_or_default();
            let schedule: Vec<usize> = case["schedule"].as_array().map(|a| a.iter().map(|x| x.as_u64().unwrap_or(0) as usize).collect()).unwrap_or_default();
            let cbase = baselines(&cits, "conc")?;
            let (x1, r1) = execute(&idx, &cits, &schedule);
            let (_x2, r2) = execute(&idx, &cits, &schedule);
            if r1 != r2 {
                return Ok("replay is not deterministic (machinery problem, no verdict)".into());
            }
            if x1.hung {
                return Ok("execution cannot be scheduled to completion (no verdict)".into());
            }
            for (ti, &i) in idx.iter().enumerate() {
                if r1[ti] != cbase[i] {
                    return Err(format!("thread {} ({}) returned a result different from its baseline under this schedule", ti, cits[i].fname()));
                }
            }
            Ok("all threads reproduce their baselines".into())
        }
        Some("random") => {
            let (a, b) = (ParsedPacket::empty(), ParsedPacket::empty());
            if a.packet()[2..] != b.packet()[2..] {
                Err("two fresh empty packets differ in more than the id".into())
            } else {
                Ok("fine".into())
            }
        }
        _ => Err("unknown case".into()),
    }
}
