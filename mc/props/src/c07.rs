//! C07: renaming rewrites exactly the matching names and nothing else.

use crate::engine::*;
use crate::PropDef;
use dnssector::*;
use refmodel::gen::*;
use refmodel::msg::*;
use refmodel::ops::*;
use refmodel::wire::*;
use serde_json::{json, Value};

pub fn def() -> PropDef {
    PropDef {
        id: "C07",
        rule: "L3 messages (names of depth <=3 over labels a,b,c,x with case twins; every name-bearing type; OPT at every position) under {Plain, Max, Chain} x every (target, source) of a name menu incl. near-misses and growth past 255 x {exact, suffix}, through both Renamer::rename_with_raw_names and ParsedPacket::rename_with_raw_names; distinct classes = (mode, names rewritten bucket, expected-error, OPT position, type set)",
        run,
        replay,
        bounds: |t| { let (n, l, k) = params(t); json!({"names": n, "record_menu_level": l, "max_records": k, "sources": sources().iter().map(|n| dotted(n)).collect::<Vec<_>>(), "targets": targets().iter().map(|n| if n.len() > 40 { format!("<{}-byte name>", n.len()) } else { dotted(n) }).collect::<Vec<_>>() }) },
        assumptions: &["the position of the OPT record inside the additional section after renaming is not constrained by the statement"],
        budget_s: |t| t.pick(55, 900),
        exhaustive: true,
        nshards: 16,
        post: |rep, _| {
            let mut v = vec![];
            for need in ["mode=suffix", "mode=exact", "hit=0", "hit=1", "hit=3+", "experr=1", "opt=middle", "same=1"] {
                if !rep.classes.keys().any(|k| k.contains(need)) {
                    v.push(format!("no explored case with {}", need));
                }
            }
            v
        },
    }
}

fn params(t: Tier) -> (usize, usize, usize) {
    t.pick((6, 0, 2), (6, 1, 2))
}

fn sources() -> Vec<Name> {
    vec![nm("a"), nm("b.a"), nm("c.b.a"), nm("B.A"), nm("x"), nm("xa"), nm("b"), nm("a.a"), nm("zone.example"), nm("example.com"), name_from_labels(&[b"x[y", b"a"]), name_from_labels(&[b"x{y", b"a"])]
}

fn targets() -> Vec<Name> {
    let mut long = name_of_wire_len(252);
    long[1] = b'T';
    vec![nm("a"), nm("z"), nm("y.z"), nm("b.a"), nm("Q.a"), long, name_of_wire_len(255)]
}

fn wf_name(n: &[u8]) -> bool {
    is_strict_plain_name(n) && n != [0]
}

fn count_hits(m: &Msg, s: &[u8], sm: bool) -> usize {
    let mut n = 0;
    let mut t = |name: &Name| {
        if let Ok(Some(_)) = rename_name(name, &[1, b'z', 0], s, sm) {
            n += 1
        }
    };
    for q in &m.q {
        t(&q.name);
    }
    for r in m.all_recs() {
        if r.rtype == T_OPT {
            continue;
        }
        t(&r.owner);
        match &r.rdata {
            Rdata::Name(x) => t(x),
            Rdata::Mx(_, x) => t(x),
            Rdata::Soa(a, b, _) => {
                t(a);
                t(b)
            }
            _ => {}
        }
    }
    n
}

fn judge(tag: &str, x: &[u8], d: &Decoded, expected: &Result<Msg, OpErr>, got: Result<Result<Vec<u8>, String>, String>, same: bool) -> Result<(), (String, String)> {
    match (expected, got) {
        (_, Err(p)) => Err((format!("{}:panic:{}", tag, panic_site(&p)), format!("{} panicked: {}", tag, p))),
        (Err(_), Ok(Ok(y))) => Err((format!("{}:overflow_accepted", tag), format!("a rewritten name exceeds 255 bytes but the call returned a packet ({} bytes)", y.len()))),
        (Err(_), Ok(Err(_))) => Ok(()),
        (Ok(_), Ok(Err(e))) => Err((format!("{}:error", tag), format!("call failed although every rewritten name fits: {}", e))),
        (Ok(e), Ok(Ok(y))) => {
            let dy = match decode(&y) {
                Ok(dy) => dy,
                Err(er) => return Err((format!("{}:output_undecodable", tag), format!("{:?}: {}", er, hex(&y)))),
            };
            if dy.end != y.len() {
                return Err((format!("{}:trailing_bytes", tag), format!("output has {} bytes after its last record: {}", y.len() - dy.end, hex(&y))));
            }
            if !equiv_mod_case_and_opt_position(e, &dy.msg) {
                return Err((format!("{}:wrong_message", tag), format!("expected vs output: {}", diff(&e.folded(), &dy.msg.folded()))));
            }
            if let Err(c) = wf(&y) {
                return Err((format!("{}:output_ill_formed:{:?}", tag, c), format!("output violates clause {:?}: {}", c, hex(&y))));
            }
            if crate::subj::parse(&y).is_err() {
                return Err((format!("{}:output_rejected", tag), "output rejected by the parser".into()));
            }
            if same && !equiv_mod_case_and_opt_position(&d.msg, &dy.msg) {
                return Err((format!("{}:self_rename_changed", tag), "renaming a name to itself changed the message".into()));
            }
            let _ = x;
            Ok(())
        }
    }
}

pub fn check_case(x: &[u8], t: &[u8], s: &[u8], sm: bool) -> Result<String, (String, String)> {
    let d = decode(x).expect("undecodable generated packet");
    let expected = rename(&d.msg, t, s, sm);
    let same = eq_ci(t, s);
    // entry point 1: Renamer
    let mut pp = match crate::subj::parse(x) {
        Ok(p) => p,
        Err(_) => return Ok("parser_rejected(C02)".into()),
    };
    let got = caught(|| Renamer::rename_with_raw_names(&mut pp, t, s, sm).map_err(|e| e.to_string()));
    judge("renamer", x, &d, &expected, got, same)?;
    // entry point 2: the packet object
    let mut pp = crate::subj::parse(x).unwrap();
    let got = caught(|| match pp.rename_with_raw_names(t, s, sm) {
        Ok(()) => match &pp.packet {
            Some(p) => Ok(p.clone()),
            None => Err("__packet_none__".to_string()),
        },
        Err(e) => Err(e.to_string()),
    });
    if let Ok(Err(e)) = &got {
        if e == "__packet_none__" {
            return Err(("pp_rename:packet_lost".into(), "ParsedPacket::rename_with_raw_names returned Ok but the object no longer holds a packet".into()));
        }
    }
    judge("pp_rename", x, &d, &expected, got, same)?;
    // the same handle is renamed once more (back again): the object must have taken the first result in fully
    if let Ok(e1) = &expected {
        if t.len() <= 255 && wf_name(t) {
            let expected2 = rename(e1, s, t, sm);
            let got2 = caught(|| match pp.rename_with_raw_names(s, t, sm) {
                Ok(()) => match &pp.packet {
                    Some(p) => Ok(p.clone()),
                    None => Err("__packet_none__".to_string()),
                },
                Err(e) => Err(e.to_string()),
            });
            let d1 = Decoded { msg: e1.clone(), ..d.clone() };
            judge("pp_rename_twice", x, &d1, &expected2, got2, false)?;
            // and the other order of entry points: first through the packet object, then, on the same object, through
            // the renamer directly (which returns the bytes); the question the object reports in between is the
            // renamed one
            let mut pp = crate::subj::parse(x).unwrap();
            let got3 = caught(|| -> Result<Vec<u8>, String> {
                pp.rename_with_raw_names(t, s, sm).map_err(|e| e.to_string())?;
                let q = pp.question().map(|q| q.0);
                let want = e1.q.first().map(|q| dotted_lower(&q.name));
                if q != want {
                    return Err(format!("__question__ after the rename question() reports {:?}, the renamed question is {:?}", q.map(|v| String::from_utf8_lossy(&v).to_string()), want.map(|v| String::from_utf8_lossy(&v).to_string())));
                }
                Renamer::rename_with_raw_names(&mut pp, s, t, sm).map_err(|e| e.to_string())
            });
            if let Ok(Err(e)) = &got3 {
                if let Some(m) = e.strip_prefix("__question__ ") {
                    return Err(("pp_rename:question_not_renamed".into(), m.to_string()));
                }
            }
            judge("pp_then_renamer", x, &d1, &expected2, got3, false)?;
        }
    }
    let hits = count_hits(&d.msg, s, sm);
    let optpos = match d.msg.ar.iter().position(|r| r.rtype == T_OPT) {
        None => "none",
        Some(i) if i + 1 == d.msg.ar.len() => "last",
        Some(0) => "first",
        _ => "middle",
    };
    let mut types: Vec<u16> = d.msg.all_recs().map(|r| type_bucket(r.rtype)).collect();
    types.sort();
    types.dedup();
    Ok(format!(
        "mode={} hit={} experr={} same={} opt={} ptr={} types={:?}",
        if sm { "suffix" } else { "exact" },
        if hits >= 3 { "3+".to_string() } else { hits.to_string() },
        expected.is_err() as u8,
        same as u8,
        optpos,
        !d.pointer_free as u8,
        types
    ))
}

fn one(ctx: &mut Ctx, rep: &mut Report, x: &[u8], t: &[u8], s: &[u8], sm: bool) {
    if ctx.journaling() {
        ctx.journal(|| json!({"input": hex(x), "target": hex(t), "source": hex(s), "suffix": sm}));
    }
    rep.transitions += 1;
    match check_case(x, t, s, sm) {
        Ok(c) => {
            rep.class(&c);
            if rep.samples.len() < MAX_SAMPLES && rep.transitions % 30011 == 0 {
                rep.sample(|| json!({"input": hex(x), "message": describe(&decode(x).unwrap().msg), "target": dotted(t), "source": dotted(s), "suffix": sm, "class": c}));
            }
        }
        Err((sig, what)) => rep.violation(&sig, what, json!({"input": hex(x), "target": hex(t), "source": hex(s), "suffix": sm})),
    }
}

fn l5() -> Vec<Vec<u8>> {
    let mut v = vec![kitchen_sink(Strategy::Max), kitchen_sink(Strategy::Plain)];
    // names that grow past 255 only in some records
    let long = name_of_wire_len(250);
    let mut with_a = long[..long.len() - 1].to_vec();
    with_a.extend_from_slice(&[1, b'a', 0]);
    let mut m = base_msg(&nm("b.a"), T_A, true);
    m.an.push(name_rec(&nm("b.a"), T_CNAME, 1, &with_a));
    m.ns.push(soa_rec(&nm("a"), 1, &nm("b.a"), &with_a));
    m.ar.push(mx_rec(&with_a, 1, 1, &nm("a")));
    v.push(encode(&m, Strategy::Max));
    v.push(encode(&m, Strategy::Plain));
    // names differing only in bit 5 of a non-letter byte must not be taken for case variants
    {
        let n1 = name_from_labels(&[b"x[y", b"a"]);
        let n2 = name_from_labels(&[b"x{y", b"a"]);
        let n3 = name_from_labels(&[b"X[Y", b"A"]);
        let mut m = base_msg(&n1, T_A, true);
        m.an.push(name_rec(&n2, T_CNAME, 1, &n3));
        m.an.push(mx_rec(&n3, 1, 1, &n2));
        m.ns.push(soa_rec(&nm("a"), 1, &n1, &n2));
        v.push(encode(&m, Strategy::Max));
        v.push(encode(&m, Strategy::Plain));
    }
    // the packet ends with a record that has no data at all (in each section; alone, after another record,
    // after an OPT record), and with records of the shortest possible size
    for sec in 0..3usize {
        for before in 0..3usize {
            let empty = Rec { owner: nm("b.a"), rtype: 99, class: 1, ttl: 7, rdata: Rdata::Opaque(vec![]) };
            let mut m = base_msg(&nm("b.a"), T_A, true);
            m.an.push(name_rec(&nm("b.a"), T_CNAME, 1, &nm("c.b.a")));
            let list = match sec {
                0 => &mut m.an,
                1 => &mut m.ns,
                _ => &mut m.ar,
            };
            if before == 1 {
                list.push(a_rec(&nm("c.b.a"), 2, [1, 2, 3, 4]));
            }
            if before == 2 && sec == 2 {
                list.push(opt_variants()[1].clone());
            }
            list.push(empty);
            v.push(encode(&m, Strategy::Max));
            v.push(encode(&m, Strategy::Plain));
        }
    }
    // RRsets with an owner unrelated to the question, written out once
    {
        let xy = nm("x.y");
        let mut m = base_msg(&nm("b.a"), T_A, true);
        m.an.push(a_rec(&xy, 300, [10, 0, 0, 1]));
        m.an.push(a_rec(&xy, 301, [10, 0, 0, 2]));
        m.ns.push(soa_rec(&xy, 303, &nm("ns.x.y"), &nm("b.a")));
        m.ar.push(mx_rec(&nm("b.a"), 304, 1, &nm("mail.x.y")));
        v.push(encode(&m, Strategy::Max));
    }
    // deep trees of one-byte labels (the renamer re-compresses: chains of 15..17 pointers in its output)
    for (_, p) in crate::c06::l5_packets().into_iter().filter(|(f, _)| *f == "nest1").skip(12) {
        v.push(p);
    }
    let al = aligned_pointer_packets();
    v.push(al[4].clone());
    v.push(al[5].clone());
    v.push(al[12].clone());
    v
}

fn run(ctx: &mut Ctx, rep: &mut Report) {
    let (nn, level, k) = params(ctx.tier);
    let names: Vec<Name> = std_names()[..nn].to_vec();
    let menu = rec_menu(&names, level);
    let opts = vec![opt_variants()[1].clone()];
    let qnames = vec![names[2].clone(), names[5].clone()];
    let shard = ctx.shard as u64;
    let nsh = ctx.nshards as u64;
    let ctxp: *mut Ctx = ctx;
    let repp: *mut Report = rep;
    let (src, tgt) = (sources(), targets());
    let strategies: &[Strategy] = ctx.tier.pick(&[Strategy::Max, Strategy::Plain][..], &[Strategy::Max, Strategy::Plain, Strategy::Chain][..]);
    let all = |x: &[u8]| {
        let (ctx, rep) = unsafe { (&mut *ctxp, &mut *repp) };
        rep.states += 1;
        for s in &src {
            for t in &tgt {
                for sm in [false, true] {
                    one(ctx, rep, x, t, s, sm);
                }
            }
        }
    };
    messages(&qnames, &menu, &opts, k, &|g| g % nsh == shard, |m| {
        let (ctx, rep) = unsafe { (&mut *ctxp, &mut *repp) };
        if ctx.timed_out() {
            rep.cap("time budget reached inside the L3 universe".into());
            return;
        }
        for st in strategies {
            let x = encode(m, *st);
            all(&x);
        }
    });
    // second sub-universe: every name-bearing type (NS, CNAME, PTR, MX, SOA, DNAME, TXT, AAAA) on 3 names
    let names2: Vec<Name> = vec![nm("a"), nm("b.a"), nm("C.B.a")];
    let menu2 = rec_menu(&names2, 2);
    messages(&[nm("b.a")], &menu2, &opts, ctx.tier.pick(1, 2), &|g| g % nsh == shard, |m| {
        let (ctx, rep) = unsafe { (&mut *ctxp, &mut *repp) };
        if ctx.timed_out() {
            rep.cap("time budget reached inside the second L3 universe".into());
            return;
        }
        for st in strategies {
            let x = encode(m, *st);
            all(&x);
        }
    });
    // every record type with data that looks like names: only NS/CNAME/PTR/MX/SOA data may be rewritten
    all_types_packets(false, |i, p| {
        let (ctx, rep) = unsafe { (&mut *ctxp, &mut *repp) };
        if ctx.mine(i) {
            rep.states += 1;
            one(ctx, rep, p, &nm("k.z"), &nm("q.a"), true);
            one(ctx, rep, p, &nm("z"), &nm("a"), true);
        }
    });
    // every label byte value with its bit-5 twin and its case twin: only true case twins may match
    for (i, m) in all_label_bytes_messages().iter().enumerate() {
        if !ctx.mine(i as u64) {
            continue;
        }
        let x = encode(m, Strategy::Max);
        rep.states += 1;
        let src = m.q[0].name.clone();
        let twin = m.an[0].owner.clone();
        for sm in [false, true] {
            one(ctx, rep, &x, &nm("k.z"), &src, sm);
            one(ctx, rep, &x, &nm("k.z"), &twin, sm);
        }
    }
    for (i, p) in l5().iter().enumerate() {
        if ctx.mine(i as u64) {
            all(p);
        }
    }
}

fn replay(case: &Value) -> Result<String, String> {
    let x = unhex(case["input"].as_str().unwrap_or(""));
    let t = unhex(case["target"].as_str().unwrap_or(""));
    let s = unhex(case["source"].as_str().unwrap_or(""));
    let sm = case["suffix"].as_bool().unwrap_or(false);
    println!("input: {}", hex(&x));
    if let Ok(d) = decode(&x) {
        println!("message: {}", describe(&d.msg));
    }
    println!("rename {} -> {} ({})", dotted(&s), if t.len() > 60 { format!("<{}-byte name>", t.len()) } else { dotted(&t) }, if sm { "suffix" } else { "exact" });
    match check_case(&x, &t, &s, sm) {
        Ok(c) => Ok(c),
        Err((sig, what)) => Err(format!("[{}] {}", sig, what)),
    }
}
