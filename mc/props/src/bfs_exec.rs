//! Executes one operation on the real object and judges it against the abstract semantics,
//! separately for C08 (view), C09 (effect) and C10 (failure atomicity / size limit).

use crate::bfs_model::*;
use crate::engine::{caught, panic_site};
use crate::subj::{check_rdata, check_typed};
use dnssector::*;
use refmodel::msg::*;
use refmodel::ops::*;
use refmodel::wire::*;
use std::net::IpAddr;

pub type V = Option<(String, String)>;

#[derive(Default, Debug)]
pub struct Verdicts {
    pub c08: V,
    pub c09: V,
    pub c10: V,
    pub class: String,
    pub next: Option<Snap>,
    pub steps: u64, // real operations executed (a cursor program counts each of its steps)
}

impl Verdicts {
    pub fn clean(&self) -> bool {
        self.c08.is_none() && self.c09.is_none() && self.c10.is_none()
    }
}

fn v(sig: String, what: String) -> V {
    Some((sig, what))
}

/// C08's oracle on a snapshot: the object's view equals what its own bytes say.
pub fn view_check(s: &Snap) -> Result<(), (String, String)> {
    let bytes = match &s.packet {
        Some(b) => b,
        None => return Err(("view:packet_none".into(), "the object no longer holds a packet".into())),
    };
    let d = match decode(bytes) {
        Ok(d) => d,
        Err(e) => return Err(("view:bytes_undecodable".into(), format!("bytes no longer decode: {:?} {}", e, hexs(bytes)))),
    };
    if d.end != bytes.len() {
        return Err(("view:trailing_bytes".into(), format!("{} bytes after the last announced record", bytes.len() - d.end)));
    }
    if !d.msg.q.is_empty() {
        if let Err(c) = wf(bytes) {
            return Err((format!("view:bytes_rejected:{:?}", c), format!("the object's bytes violate policy clause {:?}: {}", c, hexs(bytes))));
        }
    }
    let vw = view(bytes, &d);
    macro_rules! f {
        ($name:expr, $got:expr, $exp:expr) => {
            if $got != $exp {
                return Err((format!("view:{}", $name), format!("{} is {:?}, the bytes say {:?} ({})", $name, $got, $exp, hexs(bytes))));
            }
        };
    }
    f!("offset_question", s.oq, vw.offset_question);
    f!("offset_answers", s.oa, vw.offset_answers);
    f!("offset_nameservers", s.on, vw.offset_nameservers);
    f!("offset_additional", s.oad, vw.offset_additional);
    f!("offset_edns", s.oe, vw.offset_edns);
    f!("edns_count", s.edns_count, vw.edns_count);
    f!("ext_rcode", s.ext_rcode, vw.ext_rcode);
    f!("edns_version", s.edns_version, vw.edns_version);
    f!("ext_flags", s.ext_flags, vw.ext_flags);
    if let Some(c) = &s.cached {
        let exp = d.msg.q.first().map(|q| (q.name.clone(), q.qtype, q.qclass));
        if Some(c.clone()) != exp {
            return Err(("view:cached_question".into(), format!("memoised question {:?} but the bytes say {:?}", c, exp)));
        }
    }
    if !s.maybe_compressed && !d.pointer_free {
        return Err(("view:maybe_compressed".into(), "flag says pointer-free but the bytes contain a compression pointer".into()));
    }
    // and literally: indistinguishable from a fresh parse
    if !d.msg.q.is_empty() {
        if let Ok(fresh) = crate::subj::parse(bytes) {
            let fs = snap(&fresh);
            if (fs.oq, fs.oa, fs.on, fs.oad, fs.oe, fs.edns_count, fs.ext_rcode, fs.edns_version, fs.ext_flags) != (s.oq, s.oa, s.on, s.oad, s.oe, s.edns_count, s.ext_rcode, s.edns_version, s.ext_flags) {
                return Err(("view:differs_from_fresh_parse".into(), "object view differs from a fresh parse of its bytes".into()));
            }
            let mut a = restore(s);
            let mut b = fresh;
            let qa = caught(|| (a.question(), a.qtype_qclass(), a.question_raw0().map(|(n, t, c)| (n.to_vec(), t, c))));
            let qb = caught(|| (b.question(), b.qtype_qclass(), b.question_raw0().map(|(n, t, c)| (n.to_vec(), t, c))));
            if qa != qb {
                return Err(("view:question_getters".into(), format!("question getters give {:?}, a fresh parse gives {:?}", qa, qb)));
            }
        } else {
            return Err(("view:bytes_rejected_by_parser".into(), "the parser rejects the object's bytes".into()));
        }
    }
    Ok(())
}

pub fn hexs(b: &[u8]) -> String {
    if b.len() <= 160 {
        hex(b)
    } else {
        format!("{}..({} bytes)", hex(&b[..120]), b.len())
    }
}

fn msg_of(s: &Snap) -> Result<Msg, String> {
    match &s.packet {
        None => Err("no packet".into()),
        Some(b) => decode(b).map(|d| d.msg).map_err(|e| format!("{:?}", e)),
    }
}

/// Judges one completed real call.
fn judge(name: &str, before: &Snap, mb: &Msg, expected: &Result<Msg, OpErr>, real: &Result<Result<(), String>, String>, after: &Snap, approx: bool, out: &mut Verdicts) {
    match (expected, real) {
        (Ok(_), Err(p)) => {
            let s = format!("{}:panic:{}", name, panic_site(p));
            out.c08 = v(s.clone(), format!("{} panicked on arguments that must succeed: {}", name, p));
            out.c09 = v(s, format!("{} panicked instead of performing its effect: {}", name, p));
        }
        (Err(_), Err(p)) => {
            out.c10 = v(format!("{}:panic_instead_of_error:{}", name, panic_site(p)), format!("{} panicked where an error must be reported: {}", name, p));
        }
        (Ok(exp), Ok(Ok(()))) => {
            match msg_of(after) {
                Ok(ma) => {
                    let same = if approx { equiv_mod_case_and_opt_position(exp, &ma) } else { *exp == ma };
                    if !same {
                        out.c09 = v(format!("{}:wrong_effect", name), format!("{}: expected vs actual message: {}", name, diff(exp, &ma)));
                    }
                }
                Err(e) => out.c09 = v(format!("{}:wrong_effect", name), format!("{}: bytes no longer decode ({})", name, e)),
            }
            if let Err((s, w)) = view_check(after) {
                out.c08 = v(format!("{}:{}", name, s), format!("after {}: {}", name, w));
            }
            out.next = Some(after.clone());
        }
        (Ok(_), Ok(Err(e))) => {
            out.c09 = v(format!("{}:unexpected_error", name), format!("{} failed on arguments that must succeed: {}", name, e));
            // whatever the reason for the failure: an operation that reports an error must not have changed anything
            match msg_of(after) {
                Ok(ma) if ma == *mb => {
                    if let Err((s, w)) = view_check(after) {
                        out.c10 = v(format!("{}:failed_{}", name, s), format!("after failed {} ({}): {}", name, e, w));
                    }
                }
                Ok(ma) => out.c10 = v(format!("{}:failed_but_changed", name), format!("{} reported an error ({}) but the message changed: {}", name, e, diff(mb, &ma))),
                Err(d) => out.c10 = v(format!("{}:failed_but_changed", name), format!("{} reported an error ({}) and the bytes no longer decode ({})", name, e, d)),
            }
            out.next = Some(after.clone());
        }
        (Err(why), Ok(Ok(()))) => {
            let len = after.packet.as_ref().map(|p| p.len()).unwrap_or(0);
            let sig = if *why == OpErr::TooLarge { format!("{}:too_large_accepted", name) } else { format!("{}:error_expected:{:?}", name, why) };
            out.c10 = v(sig, format!("{} succeeded where it must fail with {:?} (packet is now {} bytes)", name, why, len));
        }
        (Err(_), Ok(Err(_))) => {
            match msg_of(after) {
                Ok(ma) if ma == *mb => {}
                Ok(ma) => out.c10 = v(format!("{}:failed_but_changed", name), format!("{} reported an error but the message changed: {}", name, diff(mb, &ma))),
                Err(e) => out.c10 = v(format!("{}:failed_but_changed", name), format!("{} reported an error and the bytes no longer decode ({})", name, e)),
            }
            if out.c10.is_none() {
                if let Err((s, w)) = view_check(after) {
                    out.c10 = v(format!("{}:failed_{}", name, s), format!("after failed {}: {}", name, w));
                }
            }
            out.next = Some(after.clone());
        }
    }
    let _ = before;
}

// ---------------------------------------------------------------------------------------------
// cursor abstraction over the two iterator types

pub trait Cur: DNSIterable + TypedIterable + Sized {
    fn nxt(self, incl_opt: bool) -> Option<Self>;
    fn set_ttl(&mut self, v: u32) -> bool;
    fn set_ip(&mut self, ip: &IpAddr) -> Option<Result<(), String>>;
    fn check_r(&self, rec: &Rec, raw: &[u8]) -> Result<(), String>;
}

impl Cur for ResponseIterator<'_> {
    fn nxt(self, incl_opt: bool) -> Option<Self> {
        if incl_opt {
            self.next_including_opt()
        } else {
            self.next()
        }
    }
    fn set_ttl(&mut self, v: u32) -> bool {
        self.set_rr_ttl(v);
        true
    }
    fn set_ip(&mut self, ip: &IpAddr) -> Option<Result<(), String>> {
        Some(self.set_rr_ip(ip).map_err(|e| e.to_string()))
    }
    fn check_r(&self, rec: &Rec, raw: &[u8]) -> Result<(), String> {
        check_rdata(self, rec, raw)
    }
}

impl Cur for QuestionIterator<'_> {
    fn nxt(self, _incl_opt: bool) -> Option<Self> {
        self.next()
    }
    fn set_ttl(&mut self, _v: u32) -> bool {
        false
    }
    fn set_ip(&mut self, _ip: &IpAddr) -> Option<Result<(), String>> {
        None
    }
    fn check_r(&self, _rec: &Rec, _raw: &[u8]) -> Result<(), String> {
        Ok(())
    }
}

pub fn sec_base(d: &Decoded, sec: Sec) -> usize {
    match sec {
        Sec::Answer => 0,
        Sec::Authority => d.msg.an.len(),
        _ => d.msg.an.len() + d.msg.ns.len(),
    }
}

/// Does the live cursor designate record `idx` of `sec` in the object's current bytes?
pub fn designates<T: Cur>(item: &T, sec: Sec, idx: usize) -> Result<(), String> {
    let bytes = item.parsed_packet().packet().to_vec();
    let d = decode(&bytes).map_err(|e| format!("bytes undecodable: {:?}", e))?;
    if sec == Sec::Question {
        let q = d.msg.q.first().ok_or("no question in the bytes")?;
        let sp = d.qspan.as_ref().unwrap();
        return check_typed(item, &q.name, q.qtype, q.qclass, sec, sp.start, sp.end);
    }
    let recs = d.msg.sec(sec);
    let rec = recs.get(idx).ok_or(format!("section has no record {}", idx))?;
    let sp = &d.spans[sec_base(&d, sec) + idx];
    check_typed(item, &rec.owner, rec.rtype, rec.class, sec, sp.start, sp.end)?;
    item.check_r(rec, &bytes[sp.name_end + 10..sp.end])
}

/// After a restart (next() on a tombstone) the cursor may be anywhere in the section: find it.
fn locate<T: Cur>(item: &T, sec: Sec) -> Result<usize, String> {
    let bytes = item.parsed_packet().packet().to_vec();
    let d = decode(&bytes).map_err(|e| format!("bytes undecodable: {:?}", e))?;
    if sec == Sec::Question {
        designates(item, sec, 0)?;
        return Ok(0);
    }
    let base = sec_base(&d, sec);
    for i in 0..d.msg.sec(sec).len() {
        if Some(d.spans[base + i].start) == item.offset() {
            designates(item, sec, i)?;
            return Ok(i);
        }
    }
    Err(format!("cursor at offset {:?} designates no record of the section", item.offset()))
}

/// The cursor was found not to designate its record any more (a C08 matter, already recorded). The step that
/// follows in the program is still carried out when it is a TTL / address setter or a deletion, and its effect
/// on the message is judged on its own: a setter that now changes something else than its field of its record
/// is C09's concern as well.
fn after_lost_cursor<T: Cur>(it: &mut T, sec: Sec, i: usize, step: Option<&CurOp>, out: &mut Verdicts) {
    let step = match step {
        Some(s) if sec != Sec::Question => s,
        _ => return,
    };
    let before = snap(it.parsed_packet());
    let mb = match msg_of(&before) {
        Ok(m) => m,
        Err(_) => return,
    };
    if i >= mb.sec(sec).len() {
        return;
    }
    let mut exp = mb.clone();
    let (what, real): (&str, Result<Result<(), String>, String>) = match step {
        CurOp::SetTtl(val) => {
            exp.sec_mut(sec)[i].ttl = *val;
            ("set_rr_ttl", caught(|| {
                it.set_ttl(*val);
                Ok(())
            }))
        }
        CurOp::SetIp(val) => {
            let bytes = ip_bytes(*val);
            let rec = &mb.sec(sec)[i];
            if !((rec.rtype == T_A && bytes.len() == 4) || (rec.rtype == T_AAAA && bytes.len() == 16)) {
                return;
            }
            exp.sec_mut(sec)[i].rdata = Rdata::Opaque(bytes.clone());
            let ip: IpAddr = if bytes.len() == 4 { IpAddr::from(<[u8; 4]>::try_from(&bytes[..]).unwrap()) } else { IpAddr::from(<[u8; 16]>::try_from(&bytes[..]).unwrap()) };
            ("set_rr_ip", caught(|| it.set_ip(&ip).unwrap_or(Ok(()))))
        }
        CurOp::Delete => {
            exp.sec_mut(sec).remove(i);
            ("delete", caught(|| it.delete().map_err(|e| e.to_string())))
        }
        _ => return,
    };
    out.steps += 1;
    let name = format!("{}({}):after_lost_cursor", what, sec_name(sec));
    match real {
        Err(p) => out.c09 = v(format!("{}:panic:{}", name, panic_site(&p)), format!("{} panicked instead of performing its effect: {}", what, p)),
        Ok(Err(e)) => out.c09 = v(format!("{}:unexpected_error", name), format!("{} failed on a live record: {}", what, e)),
        Ok(Ok(())) => match msg_of(&snap(it.parsed_packet())) {
            Ok(ma) if ma == exp => {}
            Ok(ma) => out.c09 = v(format!("{}:wrong_effect", name), format!("{}: expected vs actual message: {}", what, diff(&exp, &ma))),
            Err(e) => out.c09 = v(format!("{}:wrong_effect", name), format!("{}: bytes no longer decode ({})", what, e)),
        },
    }
}

fn next_index(m: &Msg, sec: Sec, from: usize, incl_opt: bool) -> Option<usize> {
    if sec == Sec::Question {
        return None;
    }
    let recs = m.sec(sec);
    let mut i = from;
    while i < recs.len() {
        if incl_opt || recs[i].rtype != T_OPT {
            return Some(i);
        }
        i += 1;
    }
    None
}

fn owner_of(m: &Msg, sec: Sec, idx: usize) -> Name {
    if sec == Sec::Question {
        m.q[0].name.clone()
    } else {
        m.sec(sec)[idx].owner.clone()
    }
}

fn run_program<T: Cur>(mut it: Option<T>, sec: Sec, incl_opt: bool, index: usize, prog: &[CurOp], out: &mut Verdicts) {
    // position the cursor on `index` (model indices count every record of the section)
    let m0 = match it.as_ref() {
        Some(i) => match decode(i.parsed_packet().packet()) {
            Ok(d) => d.msg,
            Err(_) => return,
        },
        None => return,
    };
    let mut idx = match next_index(&m0, sec, 0, incl_opt) {
        Some(i) => i,
        None if sec == Sec::Question => 0,
        None => return,
    };
    while idx < index {
        let r = caught(|| it.take().unwrap().nxt(incl_opt));
        out.steps += 1;
        match r {
            Err(p) => {
                out.c08 = v(format!("walk:panic:{}", panic_site(&p)), format!("advancing the cursor panicked: {}", p));
                return;
            }
            Ok(n) => it = n,
        }
        match (next_index(&m0, sec, idx + 1, incl_opt), it.is_some()) {
            (Some(n), true) => idx = n,
            _ => return, // fewer records than `index`: nothing to do (not generated normally)
        }
    }
    if idx != index {
        return;
    }
    let mut cur: Option<usize> = Some(idx); // None = tombstone
    let name = |c: &CurOp| -> String {
        let base = match c {
            CurOp::SetName(_) => "set_raw_name",
            CurOp::Delete => "delete",
            CurOp::SetTtl(_) => "set_rr_ttl",
            CurOp::SetIp(_) => "set_rr_ip",
            CurOp::Uncompress => "iter_uncompress",
            CurOp::Next | CurOp::NextInclOpt => "next",
        };
        format!("{}({})", base, sec_name(sec))
    };
    for (k, c) in prog.iter().enumerate() {
        let item_ref = match it.as_ref() {
            Some(i) => i,
            None => break,
        };
        let before = snap(item_ref.parsed_packet());
        let mb = match msg_of(&before) {
            Ok(m) => m,
            Err(_) => break,
        };
        let nm_ = name(c);
        out.class.push_str(&format!("{}>", nm_));
        match c {
            CurOp::SetName(a) => {
                let current = cur.map(|i| owner_of(&mb, sec, i)).unwrap_or_else(|| vec![1, b't', 0]);
                let arg = name_arg(*a, &current);
                if let Some(i) = cur {
                    // protocol consistency: an OPT pseudo-record is root-named by definition; giving it
                    // another (valid) name is not a history the parser's policy can accept
                    if sec == Sec::Additional && mb.ar[i].rtype == T_OPT && valid_new_name(&arg).map(|n| n != [0]).unwrap_or(false) {
                        continue;
                    }
                }
                let expected: Result<Msg, OpErr> = match (cur, valid_new_name(&arg)) {
                    (None, _) => Err(OpErr::NoSuchRecord),
                    (_, None) => Err(OpErr::BadName),
                    (Some(i), Some(n)) => {
                        if plain_len(&mb) - current.len() + n.len() > 0xffff {
                            Err(OpErr::TooLarge)
                        } else {
                            let mut m = mb.clone();
                            if sec == Sec::Question {
                                m.q[0].name = n;
                            } else {
                                m.sec_mut(sec)[i].owner = n;
                            }
                            Ok(m)
                        }
                    }
                };
                let real = caught(|| it.as_mut().unwrap().set_raw_name(&arg).map_err(|e| e.to_string()));
                out.steps += 1;
                // A result beyond 65535 bytes: the property names "a packet that would become too large" among the
                // errors but promises a hard limit for insertion only. Either outcome is taken for what it is: a
                // reported error must leave everything as it was, a success must have the effect of the call.
                let expected = match (&expected, cur, valid_new_name(&arg), &real) {
                    (Err(OpErr::TooLarge), Some(i), Some(n), Ok(Ok(()))) => {
                        let mut m = mb.clone();
                        if sec == Sec::Question {
                            m.q[0].name = n;
                        } else {
                            m.sec_mut(sec)[i].owner = n;
                        }
                        Ok(m)
                    }
                    _ => expected,
                };
                if real.is_err() {
                    judge(&nm_, &before, &mb, &expected, &real, &before, false, out);
                    return;
                }
                let after = snap(it.as_ref().unwrap().parsed_packet());
                judge(&nm_, &before, &mb, &expected, &real, &after, false, out);
                out.class.push_str(if expected.is_ok() { "ok " } else { "err " });
                if !out.clean() {
                    // a state whose only problem is its view (C08's verdict) stays available as a successor:
                    // C09/C10 look at what one more operation does from there
                    if !(out.c08.is_some() && out.c09.is_none() && out.c10.is_none()) {
                        out.next = None;
                    }
                    return;
                }
                if expected.is_ok() {
                    if let Err(e) = caught(|| designates(it.as_ref().unwrap(), sec, cur.unwrap())).unwrap_or_else(|p| Err(format!("panic: {}", p))) {
                        out.c08 = v(format!("{}:cursor_lost", nm_), format!("after a successful set_raw_name the iterator no longer designates its record: {}", e));
                        out.next = None;
                        after_lost_cursor(it.as_mut().unwrap(), sec, cur.unwrap(), prog.get(k + 1), out);
                        return;
                    }
                }
            }
            CurOp::Delete => {
                let expected: Result<Msg, OpErr> = match cur {
                    None => Err(OpErr::NoSuchRecord),
                    Some(i) => {
                        let mut m = mb.clone();
                        if sec == Sec::Question {
                            m.q.clear();
                        } else {
                            m.sec_mut(sec).remove(i);
                        }
                        Ok(m)
                    }
                };
                let real = caught(|| it.as_mut().unwrap().delete().map_err(|e| e.to_string()));
                out.steps += 1;
                if real.is_err() {
                    judge(&nm_, &before, &mb, &expected, &real, &before, false, out);
                    return;
                }
                let after = snap(it.as_ref().unwrap().parsed_packet());
                judge(&nm_, &before, &mb, &expected, &real, &after, false, out);
                out.class.push_str(if expected.is_ok() { "ok " } else { "void " });
                if !out.clean() {
                    // a state whose only problem is its view (C08's verdict) stays available as a successor:
                    // C09/C10 look at what one more operation does from there
                    if !(out.c08.is_some() && out.c09.is_none() && out.c10.is_none()) {
                        out.next = None;
                    }
                    return;
                }
                if expected.is_ok() {
                    cur = None;
                }
            }
            CurOp::SetTtl(val) => {
                let i = match cur {
                    Some(i) if sec != Sec::Question => i,
                    _ => continue, // precondition: a live record cursor
                };
                let mut m = mb.clone();
                m.sec_mut(sec)[i].ttl = *val;
                let expected = Ok(m);
                let real = caught(|| {
                    it.as_mut().unwrap().set_ttl(*val);
                    Ok(())
                });
                out.steps += 1;
                if real.is_err() {
                    judge(&nm_, &before, &mb, &expected, &real, &before, false, out);
                    return;
                }
                let after = snap(it.as_ref().unwrap().parsed_packet());
                judge(&nm_, &before, &mb, &expected, &real, &after, false, out);
                if !out.clean() {
                    // a state whose only problem is its view (C08's verdict) stays available as a successor:
                    // C09/C10 look at what one more operation does from there
                    if !(out.c08.is_some() && out.c09.is_none() && out.c10.is_none()) {
                        out.next = None;
                    }
                    return;
                }
            }
            CurOp::SetIp(val) => {
                let i = match cur {
                    Some(i) if sec != Sec::Question => i,
                    _ => continue,
                };
                let rec = &mb.sec(sec)[i];
                let bytes = ip_bytes(*val);
                let expected: Result<Msg, OpErr> = if (rec.rtype == T_A && bytes.len() == 4) || (rec.rtype == T_AAAA && bytes.len() == 16) {
                    let mut m = mb.clone();
                    m.sec_mut(sec)[i].rdata = Rdata::Opaque(bytes);
                    Ok(m)
                } else if rec.rtype == T_A || rec.rtype == T_AAAA {
                    Err(OpErr::WrongFamily)
                } else {
                    Err(OpErr::NotAnAddress)
                };
                let ip = ip_arg(*val);
                let real = caught(|| it.as_mut().unwrap().set_ip(&ip).unwrap());
                out.steps += 1;
                if real.is_err() {
                    judge(&nm_, &before, &mb, &expected, &real, &before, false, out);
                    return;
                }
                let after = snap(it.as_ref().unwrap().parsed_packet());
                judge(&nm_, &before, &mb, &expected, &real, &after, false, out);
                out.class.push_str(if expected.is_ok() { "ok " } else { "err " });
                if !out.clean() {
                    // a state whose only problem is its view (C08's verdict) stays available as a successor:
                    // C09/C10 look at what one more operation does from there
                    if !(out.c08.is_some() && out.c09.is_none() && out.c10.is_none()) {
                        out.next = None;
                    }
                    return;
                }
            }
            CurOp::Uncompress => {
                let i = match cur {
                    Some(i) => i,
                    None => continue,
                };
                let expected = Ok(mb.clone());
                let real = caught(|| it.as_mut().unwrap().uncompress().map_err(|e| e.to_string()));
                out.steps += 1;
                if real.is_err() {
                    judge(&nm_, &before, &mb, &expected, &real, &before, false, out);
                    return;
                }
                let after = snap(it.as_ref().unwrap().parsed_packet());
                judge(&nm_, &before, &mb, &expected, &real, &after, false, out);
                if out.clean() {
                    if let Some(b) = &after.packet {
                        if !decode(b).map(|d| d.pointer_free).unwrap_or(false) {
                            out.c09 = v(format!("{}:not_pointer_free", nm_), "in-place decompression left a compression pointer".into());
                        }
                    }
                }
                if !out.clean() {
                    // a state whose only problem is its view (C08's verdict) stays available as a successor:
                    // C09/C10 look at what one more operation does from there
                    if !(out.c08.is_some() && out.c09.is_none() && out.c10.is_none()) {
                        out.next = None;
                    }
                    return;
                }
                if let Err(e) = caught(|| designates(it.as_ref().unwrap(), sec, i)).unwrap_or_else(|p| Err(format!("panic: {}", p))) {
                    out.c08 = v(format!("{}:cursor_lost", nm_), format!("after in-place decompression the iterator no longer designates its record: {}", e));
                    out.next = None;
                    after_lost_cursor(it.as_mut().unwrap(), sec, i, prog.get(k + 1), out);
                    return;
                }
            }
            CurOp::Next | CurOp::NextInclOpt => {
                let incl = matches!(c, CurOp::NextInclOpt);
                let r = caught(|| it.take().unwrap().nxt(incl));
                out.steps += 1;
                match r {
                    Err(p) => {
                        out.c08 = v(format!("{}:panic:{}", nm_, panic_site(&p)), format!("advancing the iterator panicked: {}", p));
                        out.next = None;
                        return;
                    }
                    Ok(n) => it = n,
                }
                match cur {
                    Some(i) => {
                        let exp = next_index(&mb, sec, i + 1, incl);
                        match (exp, it.as_ref()) {
                            (None, None) => {
                                cur = None;
                            }
                            (Some(e), Some(item)) => {
                                if let Err(er) = caught(|| designates(item, sec, e)).unwrap_or_else(|p| Err(format!("panic: {}", p))) {
                                    out.c08 = v(format!("{}:wrong_record", nm_), format!("advancing the iterator does not yield the record that followed: {}", er));
                                    out.next = None;
                                    return;
                                }
                                cur = Some(e);
                            }
                            (Some(_), None) => {
                                out.c08 = v(format!("{}:ended_early", nm_), "advancing the iterator yields nothing although a record follows".into());
                                out.next = None;
                                return;
                            }
                            (None, Some(_)) => {
                                out.c08 = v(format!("{}:extra_record", nm_), "advancing the iterator yields a record although none follows".into());
                                out.next = None;
                                return;
                            }
                        }
                    }
                    None => {
                        // restart after a deletion: any record of the section is acceptable (C11 decides more)
                        if let Some(item) = it.as_ref() {
                            match caught(|| locate(item, sec)).unwrap_or_else(|p| Err(format!("panic: {}", p))) {
                                Ok(i) => cur = Some(i),
                                Err(e) => {
                                    out.c08 = v(format!("{}:restart_lost", nm_), format!("after a deletion, next() yields something that is no record of the section: {}", e));
                                    out.next = None;
                                    return;
                                }
                            }
                        }
                    }
                }
            }
        }
    }
    if let Some(i) = it.as_ref() {
        out.next = Some(snap(i.parsed_packet()));
    }
}

// ---------------------------------------------------------------------------------------------

/// Which operations are in the alphabet of state `s` (protocol-consistent, preconditions met).
pub fn applicable(op: &Op, m: &Msg, s: &Snap, pointer_free: bool) -> bool {
    let has_q = !m.q.is_empty();
    let has_recs = !m.an.is_empty() || !m.ns.is_empty();
    let qr = m.flags & 0x8000 != 0;
    // a name that runs through the header bytes is legitimately rewritten by a header setter: such
    // histories are outside the properties
    let through_header = || -> bool {
        let b = match &s.packet {
            Some(b) => b,
            None => return false,
        };
        let mut o = 12usize;
        let mut hops = 0;
        while o < b.len() && hops < 40 {
            let c = b[o];
            if c & 0xc0 == 0xc0 {
                if o + 1 >= b.len() {
                    return false;
                }
                let t = (((c & 0x3f) as usize) << 8) | b[o + 1] as usize;
                if t < 12 {
                    return true;
                }
                o = t;
                hops += 1;
                continue;
            }
            if c == 0 {
                return false;
            }
            o += 1 + c as usize;
        }
        false
    };
    if matches!(op, Op::SetTid(_) | Op::SetFlags(_) | Op::SetRcode(_) | Op::SetOpcode(_) | Op::SetResponse(_)) && !pointer_free && through_header() {
        return false;
    }
    match op {
        Op::SetFlags(f) => !(has_recs && f & 0x8000 == 0),
        Op::SetResponse(r) => *r || !has_recs,
        Op::Recompute => has_q && (pointer_free || !s.maybe_compressed),
        Op::Rename(_) => has_q,
        // a query does not carry answer / authority records; an insertion that must FAIL (filler beyond the
        // limit) is a legitimate history there too: the query must come out of it unchanged
        Op::InsertFiller(sec, t) if !qr && *sec != Sec::Additional => *t > 8192 && (has_q || !s.maybe_compressed),
        Op::InsertText(sec, _) | Op::InsertFiller(sec, _) => (qr || *sec == Sec::Additional) && (has_q || !s.maybe_compressed),
        Op::InsertQuestion(_) => has_q || !s.maybe_compressed,
        Op::Cursor { sec, index, incl_opt, .. } => {
            if !has_q && s.maybe_compressed {
                return false;
            }
            match sec {
                Sec::Question => has_q && *index == 0,
                _ => {
                    let recs = m.sec(*sec);
                    *index < recs.len() && (*incl_opt || recs[*index].rtype != T_OPT)
                }
            }
        }
        _ => true,
    }
}

pub fn exec_op(s: &Snap, op: &Op) -> Verdicts {
    let mut out = Verdicts::default();
    let bytes = s.packet.clone().expect("expanding a state without packet");
    let db = decode(&bytes).expect("expanding an undecodable state");
    let mb = db.msg.clone();
    let mut pp = restore(s);
    let simple = |out: &mut Verdicts, name: &str, expected: Result<Msg, OpErr>, pp: &mut ParsedPacket, f: &mut dyn FnMut(&mut ParsedPacket) -> Result<(), String>, approx: bool| {
        let real = caught(|| f(pp));
        out.steps += 1;
        let after = if real.is_ok() { snap(pp) } else { s.clone() };
        out.class = format!("{} exp={}", name, if expected.is_ok() { "ok" } else { "err" });
        judge(name, s, &mb, &expected, &real, &after, approx, out);
    };
    match op {
        Op::SetTid(val) => {
            let mut m = mb.clone();
            m.id = *val;
            simple(&mut out, "set_tid", Ok(m), &mut pp, &mut |p| { p.set_tid(*val); Ok(()) }, false);
        }
        Op::SetFlags(val) => {
            let mut m = mb.clone();
            let keep = 0x7800u16 | 0x000f;
            m.flags = (m.flags & keep) | ((*val as u16) & !keep);
            simple(&mut out, "set_flags", Ok(m), &mut pp, &mut |p| { p.set_flags(*val); Ok(()) }, false);
        }
        Op::SetRcode(val) => {
            let mut m = mb.clone();
            m.flags = (m.flags & !0x000f) | (*val as u16 & 0x000f);
            simple(&mut out, "set_rcode", Ok(m), &mut pp, &mut |p| { p.set_rcode(*val); Ok(()) }, false);
        }
        Op::SetOpcode(val) => {
            let mut m = mb.clone();
            m.flags = (m.flags & !0x7800) | ((*val as u16 & 0x0f) << 11);
            simple(&mut out, "set_opcode", Ok(m), &mut pp, &mut |p| { p.set_opcode(*val); Ok(()) }, false);
        }
        Op::SetResponse(val) => {
            let mut m = mb.clone();
            m.flags = (m.flags & !0x8000) | if *val { 0x8000 } else { 0 };
            simple(&mut out, "set_response", Ok(m), &mut pp, &mut |p| { p.set_response(*val); Ok(()) }, false);
        }
        Op::QuestionRaw0 => {
            let exp_q = mb.q.first().map(|q| (q.name.clone(), q.qtype, q.qclass));
            let mut wrong = None;
            simple(&mut out, "question_raw0", Ok(mb.clone()), &mut pp, &mut |p| {
                let got = p.question_raw0().map(|(n, t, c)| (n.to_vec(), t, c));
                if got != exp_q {
                    wrong = Some(format!("{:?} vs {:?}", got, exp_q));
                }
                Ok(())
            }, false);
            if let Some(w) = wrong {
                out.c08 = v("question_raw0:wrong_value".into(), format!("question_raw0 returns {}", w));
            }
        }
        Op::Recompute => {
            simple(&mut out, "recompute", Ok(mb.clone()), &mut pp, &mut |p| p.recompute().map_err(|e| e.to_string()), false);
        }
        Op::InsertText(sec, i) => {
            let (text, rec) = &insert_texts()[*i];
            let expected = match rec {
                None => Err(OpErr::BadName),
                Some(r) => model_insert(&mb, *sec, r),
            };
            let name = format!("insert_rr_from_string({})", sec_name(*sec));
            simple(&mut out, &name, expected, &mut pp, &mut |p| p.insert_rr_from_string(crate::subj::section_of(*sec), text).map_err(|e| e.to_string()), false);
        }
        Op::InsertQuestion(i) => {
            let q = &question_menu()[*i];
            let expected = model_insert_question(&mb, q);
            let qn = dotted(&q.name);
            simple(&mut out, "insert_rr(question)", expected, &mut pp, &mut |p| {
                let t = if q.qtype == T_A { Type::A } else { Type::MX };
                let rr = r#gen::RR::new_question(qn.as_bytes(), t, Class::IN).map_err(|e| e.to_string())?;
                p.insert_rr(Section::Question, rr).map_err(|e| e.to_string())
            }, false);
        }
        Op::InsertFiller(sec, target) => {
            // record "f. 1 IN TXT <opaque>" of total length 3 + 10 + rdlen such that plain_len + that == target
            let cur = plain_len(&mb);
            if *target < cur + 14 || *target - cur - 13 > 0xffff {
                out.class = "insert_filler:n/a".into();
                out.next = None;
                return out;
            }
            let rdlen = *target - cur - 13;
            let rec = filler_rec(rdlen);
            let expected = model_insert(&mb, *sec, &rec);
            let name = format!("insert_rr({})", sec_name(*sec));
            simple(&mut out, &name, expected, &mut pp, &mut |p| {
                let rr = filler_rr("f", rdlen)?;
                p.insert_rr(crate::subj::section_of(*sec), rr).map_err(|e| e.to_string())
            }, false);
            if let Some(n) = &out.next {
                if n.packet.as_ref().map(|p| p.len()).unwrap_or(0) > 8192 && out.c10.is_none() && cur <= 8192 {
                    out.c10 = v(format!("{}:too_large_accepted", name), "insertion produced a packet larger than 8192 bytes".into());
                }
            }
        }
        Op::Rename(i) => {
            let (t, src, sm) = &rename_triples()[*i];
            let mut expected = rename(&mb, t, src, *sm);
            if let Ok(m2) = &expected {
                if *m2 != mb && !is_strict_plain_name(t) {
                    expected = Err(OpErr::BadName);
                }
            }
            simple(&mut out, "rename_with_raw_names", expected, &mut pp, &mut |p| p.rename_with_raw_names(t, src, *sm).map_err(|e| e.to_string()), true);
        }
        Op::Cursor { sec, incl_opt, index, prog } => {
            out.class = format!("cursor({}{}) ", sec_name(*sec), if *incl_opt { "+opt" } else { "" });
            let opened = caught(|| {
                let mut o = Verdicts::default();
                match sec {
                    Sec::Question => run_program(pp.into_iter_question(), *sec, false, *index, prog, &mut o),
                    Sec::Answer => run_program(pp.into_iter_answer(), *sec, false, *index, prog, &mut o),
                    Sec::Authority => run_program(pp.into_iter_nameservers(), *sec, false, *index, prog, &mut o),
                    Sec::Additional => {
                        if *incl_opt {
                            run_program(pp.into_iter_additional_including_opt(), *sec, true, *index, prog, &mut o)
                        } else {
                            run_program(pp.into_iter_additional(), *sec, false, *index, prog, &mut o)
                        }
                    }
                }
                o
            });
            match opened {
                Ok(o) => {
                    let cls = format!("{}{}", out.class, o.class);
                    out = o;
                    out.class = cls;
                    if out.clean() && out.next.is_none() {
                        // the walk ended (cursor dropped): the object is the state
                        out.next = Some(snap(&pp));
                    }
                    if !out.clean() {
                        out.next = None;
                    }
                }
                Err(p) => {
                    out.c08 = v(format!("cursor:panic:{}", panic_site(&p)), format!("opening the iterator panicked: {}", p));
                }
            }
        }
    }
    out
}
