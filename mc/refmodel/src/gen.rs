//! Deterministic enumerators (DESIGN.md §3). No dependency on dnssector.
use crate::msg::*;
use crate::wire::*;

/// Odometer over `alphabet^n` for n = 0..=max_len, in length-then-lexicographic order.
/// `index` addresses the whole space so that it can be sharded.
pub struct Tails<'a> {
    pub alphabet: &'a [u8],
    pub max_len: usize,
}

impl<'a> Tails<'a> {
    pub fn count(&self) -> u64 {
        let k = self.alphabet.len() as u64;
        let mut total = 0u64;
        let mut pw = 1u64;
        for _ in 0..=self.max_len {
            total += pw;
            pw *= k;
        }
        total
    }
    /// writes tail number `idx` into `out` (cleared first)
    pub fn get(&self, mut idx: u64, out: &mut Vec<u8>) {
        out.clear();
        let k = self.alphabet.len() as u64;
        let mut pw = 1u64;
        let mut n = 0usize;
        while idx >= pw {
            idx -= pw;
            pw *= k;
            n += 1;
        }
        for _ in 0..n {
            out.push(self.alphabet[(idx % k) as usize]);
            idx /= k;
        }
    }
}

/// Header menu for the byte-level sweep: 12-byte headers (QR x qd x an x ns x ar) and short prefixes.
pub fn header_menu() -> Vec<Vec<u8>> {
    let mut v = vec![];
    for qr in [0u8, 0x80] {
        for qd in [0u8, 1, 2] {
            for an in [0u8, 1] {
                for ns in [0u8, 1] {
                    for ar in [0u8, 1, 2] {
                        if qd != 1 && (an + ns + ar) > 0 {
                            continue;
                        }
                        v.push(vec![0x12, 0x34, qr, 0, 0, qd, 0, an, 0, ns, 0, ar]);
                    }
                }
            }
        }
    }
    v
}

/// A header + valid question "a"/A/IN prefix, so that tails land in the record parser.
pub fn header_q_menu() -> Vec<Vec<u8>> {
    let mut v = vec![];
    for qr in [0u8, 0x80] {
        for (an, ns, ar) in [(1u8, 0u8, 0u8), (0, 1, 0), (0, 0, 1), (0, 0, 2), (1, 0, 1)] {
            let mut h = vec![0x12, 0x34, qr, 0, 0, 1, 0, an, 0, ns, 0, ar];
            h.extend_from_slice(&[1, b'a', 0, 0, 1, 0, 1]);
            v.push(h);
        }
    }
    v
}

pub fn std_names() -> Vec<Name> {
    vec![nm("."), nm("a"), nm("b.a"), nm("c.b.a"), nm("A"), nm("b.A"), nm("x"), nm("c.x")]
}

pub fn a_rec(owner: &Name, ttl: u32, ip: [u8; 4]) -> Rec {
    Rec { owner: owner.clone(), rtype: T_A, class: 1, ttl, rdata: Rdata::Opaque(ip.to_vec()) }
}
pub fn aaaa_rec(owner: &Name, ttl: u32, ip: [u8; 16]) -> Rec {
    Rec { owner: owner.clone(), rtype: T_AAAA, class: 1, ttl, rdata: Rdata::Opaque(ip.to_vec()) }
}
pub fn name_rec(owner: &Name, t: u16, ttl: u32, n: &Name) -> Rec {
    Rec { owner: owner.clone(), rtype: t, class: 1, ttl, rdata: Rdata::Name(n.clone()) }
}
pub fn mx_rec(owner: &Name, ttl: u32, pref: u16, n: &Name) -> Rec {
    Rec { owner: owner.clone(), rtype: T_MX, class: 1, ttl, rdata: Rdata::Mx(pref, n.clone()) }
}
pub fn soa_rec(owner: &Name, ttl: u32, a: &Name, b: &Name) -> Rec {
    let mut f = [0u8; 20];
    for (i, x) in f.iter_mut().enumerate() {
        *x = 0xa0 + i as u8;
    }
    Rec { owner: owner.clone(), rtype: T_SOA, class: 1, ttl, rdata: Rdata::Soa(a.clone(), b.clone(), f) }
}
pub fn txt_rec(owner: &Name, ttl: u32, txt: &[u8]) -> Rec {
    let mut rd = vec![txt.len() as u8];
    rd.extend_from_slice(txt);
    Rec { owner: owner.clone(), rtype: T_TXT, class: 1, ttl, rdata: Rdata::Opaque(rd) }
}
pub fn dname_rec(owner: &Name, ttl: u32, n: &Name) -> Rec {
    Rec { owner: owner.clone(), rtype: T_DNAME, class: 1, ttl, rdata: Rdata::Opaque(n.clone()) }
}

pub fn base_msg(qname: &Name, qtype: u16, response: bool) -> Msg {
    Msg {
        id: 0x1234,
        flags: if response { 0x8180 } else { 0x0100 },
        q: vec![Question { name: qname.clone(), qtype, qclass: 1 }],
        an: vec![],
        ns: vec![],
        ar: vec![],
    }
}

/// Record menu over a name menu: one record of each interesting type per (owner, target) pair.
/// `level` widens the menu.
pub fn rec_menu(names: &[Name], level: usize) -> Vec<Rec> {
    let mut v = vec![];
    for (i, o) in names.iter().enumerate() {
        v.push(a_rec(o, 60 + i as u32, [10, 0, 0, i as u8]));
        if level >= 1 {
            v.push(txt_rec(o, 7, b"t"));
        }
        for (j, t) in names.iter().enumerate() {
            if t == &vec![0u8] && level < 2 {
                continue;
            }
            if level == 0 && (i + j) % 2 == 1 {
                continue;
            }
            v.push(name_rec(o, T_CNAME, 300, t));
            v.push(mx_rec(o, 300, 10, t));
            if level >= 1 {
                v.push(name_rec(o, T_NS, 300, t));
                v.push(soa_rec(o, 300, t, &names[(j + 1) % names.len()]));
            }
            if level >= 2 {
                v.push(name_rec(o, T_PTR, 300, t));
                v.push(dname_rec(o, 300, t));
            }
        }
        if level >= 1 && i < 2 {
            // name-bearing records in classes other than IN (CH, and IN with the cache-flush bit): the
            // library keys on the type alone
            let t = &names[(i + 1) % names.len()];
            let mut r = name_rec(o, T_NS, 9, t);
            r.class = 3;
            v.push(r);
            let mut r = mx_rec(o, 9, 2, t);
            r.class = 0x8001;
            v.push(r);
            let mut r = soa_rec(o, 9, t, o);
            r.class = 254;
            v.push(r);
        }
        if level >= 1 && i == 0 {
            // IPv4-mapped, IPv4-compatible and documentation IPv6 addresses
            let mut mapped = [0u8; 16];
            mapped[10] = 0xff;
            mapped[11] = 0xff;
            mapped[12..].copy_from_slice(&[192, 0, 2, 1]);
            v.push(aaaa_rec(o, 5, mapped));
            let mut compat = [0u8; 16];
            compat[12..].copy_from_slice(&[192, 0, 2, 2]);
            v.push(aaaa_rec(o, 5, compat));
        }
        if level >= 2 {
            let mut ip = [0u8; 16];
            ip[15] = i as u8;
            v.push(aaaa_rec(o, 5, ip));
        }
    }
    v
}

/// Mixed-radix helper: all tuples over `radices` in odometer order, as a callback.
pub fn product(radices: &[usize], mut f: impl FnMut(&[usize])) {
    if radices.iter().any(|&r| r == 0) {
        return;
    }
    let mut idx = vec![0usize; radices.len()];
    loop {
        f(&idx);
        let mut k = 0;
        loop {
            if k == radices.len() {
                return;
            }
            idx[k] += 1;
            if idx[k] < radices[k] {
                break;
            }
            idx[k] = 0;
            k += 1;
        }
    }
}

pub fn opt_variants() -> Vec<Rec> {
    vec![
        opt_rec(1232, 0, 0, 0x8000, &[]),
        opt_rec(4096, 1, 0, 0, &[(10, vec![1, 2, 3, 4, 5, 6, 7, 8])]),
        opt_rec(512, 0, 1, 0x7fff, &[(8, vec![]), (12, vec![0; 3])]),
    ]
}

/// All messages with a question and at most `k` records in total spread over the sections,
/// records drawn from `menu`; OPT (from `opts`, may be empty) placed at every position of the
/// additional section or absent. `want(group)` selects record tuples (for sharding); `f` is
/// called for each message of a wanted tuple. Returns the number of tuples (groups).
pub fn messages(qnames: &[Name], menu: &[Rec], opts: &[Rec], k: usize, want: &dyn Fn(u64) -> bool, mut f: impl FnMut(&Msg)) -> u64 {
    let mut group = 0u64;
    for qn in qnames {
        for total in 0..=k {
            for a in 0..=total {
                for n in 0..=(total - a) {
                    let slots = total;
                    if slots == 0 {
                        if want(group) {
                            emit_with_opt(qn, &[], 0, 0, opts, &mut f);
                        }
                        group += 1;
                        continue;
                    }
                    let radices = vec![menu.len(); slots];
                    product(&radices, |idx| {
                        if want(group) {
                            let recs: Vec<Rec> = idx.iter().map(|&i| menu[i].clone()).collect();
                            emit_with_opt(qn, &recs, a, n, opts, &mut f);
                        }
                        group += 1;
                    });
                }
            }
        }
    }
    group
}

fn emit_with_opt(qn: &Name, recs: &[Rec], a: usize, n: usize, opts: &[Rec], f: &mut impl FnMut(&Msg)) {
    let mut m = base_msg(qn, T_A, true);
    m.an = recs[..a].to_vec();
    m.ns = recs[a..a + n].to_vec();
    m.ar = recs[a + n..].to_vec();
    f(&m);
    if a + n == 0 {
        let mut mq = m.clone();
        mq.flags = 0x0100;
        f(&mq);
    }
    for o in opts {
        for pos in 0..=m.ar.len() {
            let mut m2 = m.clone();
            m2.ar.insert(pos, o.clone());
            f(&m2);
        }
    }
}

/// Every accepted packet met in the byte/field-level families (L2, L2pair-like, L4 closure, L5 chains):
/// calls f(index, packet) for those that satisfy the policy.
pub fn accepted_low_level(level: usize, mut f: impl FnMut(u64, &[u8])) -> u64 {
    let mut n = 0u64;
    one_record_packets(|_, p| {
        if wf(p).is_ok() {
            f(n, p);
            n += 1;
        }
    });
    for s in closure_seeds(level) {
        damage_closure(&s, |_, p| {
            if wf(p).is_ok() {
                f(n, p);
                n += 1;
            }
        });
    }
    for k in 0..=16 {
        for sl in [1usize, 13, 14] {
            let p = pointer_chain_packet(k, sl);
            if wf(&p).is_ok() {
                f(n, &p);
                n += 1;
            }
        }
    }
    for p in aligned_pointer_packets() {
        f(n, &p);
        n += 1;
    }
    for p in into_header_packets() {
        f(n, &p);
        n += 1;
    }
    // many minimal records (11 and 16 bytes each) in one section and spread over three
    for n_recs in [12usize, 13, 14, 20, 100] {
        for kind in 0..3 {
            for split in 0..3 {
                let p = many_record_packet(ManyParams { kind, n: n_recs, split, q: 1 });
                f(n, &p);
                n += 1;
            }
        }
    }
    // names that reach exactly 253, 254 and 255 bytes only once their pointer is followed
    for l in [251usize, 252, 253] {
        let q = name_of_wire_len(l);
        let mut long = vec![1u8, b'p'];
        long.extend_from_slice(&q);
        let mut m = base_msg(&q, T_A, true);
        m.an.push(a_rec(&long, 1, [1, 2, 3, 4]));
        m.an.push(name_rec(&q, T_NS, 2, &long));
        m.ns.push(soa_rec(&q, 3, &long, &long));
        for st in [Strategy::Max, Strategy::RdataOnly] {
            let p = encode(&m, st);
            if wf(&p).is_ok() {
                f(n, &p);
                n += 1;
            }
        }
    }
    // RRsets: an owner unrelated to the question written out once and then named by bare pointers, same and
    // different types, different TTLs, with an OPT record before, between and after
    for optpos in 0..4usize {
        let xy = nm("x.y");
        let mut m = base_msg(&nm("b.a"), T_A, true);
        m.an.push(a_rec(&xy, 300, [10, 0, 0, 1]));
        m.an.push(a_rec(&xy, 301, [10, 0, 0, 2]));
        m.an.push(name_rec(&xy, T_NS, 302, &nm("ns.x.y")));
        m.ns.push(soa_rec(&xy, 303, &nm("ns.x.y"), &nm("admin.x.y")));
        m.ar.push(a_rec(&nm("ns.x.y"), 304, [10, 0, 0, 3]));
        m.ar.push(aaaa_rec(&nm("ns.x.y"), 305, [0x20; 16]));
        if optpos < 3 {
            m.ar.insert(optpos, opt_variants()[1].clone());
        }
        for st in [Strategy::Max, Strategy::Plain, Strategy::Chain, Strategy::RdataOnly] {
            let p = encode(&m, st);
            f(n, &p);
            n += 1;
        }
    }
    // names of 1..127 labels (one byte each) as question, as owner via pointer and inside NS data
    for labels in (1..=127usize).filter(|l| *l <= 24 || l % 8 == 7) {
        let mut q = vec![];
        for i in 0..labels {
            q.extend_from_slice(&[1, b'a' + (i % 26) as u8]);
        }
        q.push(0);
        let mut m = base_msg(&q, T_A, true);
        m.an.push(name_rec(&q, T_NS, 1, &q));
        m.ar.push(a_rec(&q, 1, [1, 2, 3, 4]));
        for st in [Strategy::Max, Strategy::Plain] {
            let p = encode(&m, st);
            f(n, &p);
            n += 1;
        }
    }
    for m in all_label_bytes_messages() {
        for st in [Strategy::Plain, Strategy::Max] {
            let p = encode(&m, st);
            f(n, &p);
            n += 1;
        }
    }
    if level >= 1 {
        let mut acc: Vec<Vec<u8>> = vec![];
        field_value_packets(|_, p| {
            if wf(p).is_ok() {
                acc.push(p.to_vec());
            }
        });
        for p in acc {
            f(n, &p);
            n += 1;
        }
    }
    n
}

// ---------------------------------------------------------------------------------------------
// L2: one-record field products

/// Name encodings placed at offset `at` in a packet whose question name "a" sits at 12..15
/// (root byte at 14). Mix of valid and invalid encodings.
pub fn name_encodings(at: usize) -> Vec<Vec<u8>> {
    let mut l63 = vec![63u8];
    l63.extend(std::iter::repeat(b'x').take(63));
    l63.push(0);
    let mut l64 = vec![64u8];
    l64.extend(std::iter::repeat(b'x').take(64));
    l64.push(0);
    vec![
        vec![0],
        vec![1, b'b', 0],
        vec![1, b'B', 1, b'a', 0],
        l63,
        l64,
        vec![0xc0, 12],
        vec![0xc0, at as u8],
        vec![0xc0, (at + 16) as u8],
        vec![0xc0, 14],
        vec![0xc0, 0],
        vec![0xc0, 13],
        vec![1, b'b', 0xc0, 12],
        vec![1, b'.', 0],
        vec![1, 0x7f, 0],
        vec![1, b'\\', 0],
        vec![1, 0x1f, 0],
        vec![0x40, 0],
        vec![0x80, 0],
        vec![5, b'a'],
        vec![0xc0],
        vec![1, 0xff, 0],
    ]
}

pub const L2_TYPES: [u16; 13] = [T_A, T_NS, T_CNAME, T_SOA, T_PTR, T_MX, T_TXT, T_AAAA, T_DNAME, T_OPT, 0, 65535, T_DS];

/// rdata templates for a type; names are taken from `name_encodings(rd_at)`
fn rdata_templates(t: u16, rd_at: usize) -> Vec<Vec<u8>> {
    let names = name_encodings(rd_at);
    let mut v: Vec<Vec<u8>> = vec![];
    match t {
        T_A => {
            v.push(vec![1, 2, 3, 4]);
            v.push(vec![1, 2, 3]);
            v.push(vec![1, 2, 3, 4, 5]);
            v.push(vec![]);
        }
        T_AAAA => {
            v.push(vec![7; 16]);
            v.push(vec![7; 15]);
            v.push(vec![7; 17]);
            v.push(vec![7; 4]);
        }
        T_NS | T_CNAME | T_PTR | T_DNAME => {
            for n in names {
                v.push(n);
            }
            v.push(vec![]);
        }
        T_MX => {
            for n in name_encodings(rd_at + 2) {
                let mut r = vec![0, 10];
                r.extend(n);
                v.push(r);
            }
            v.push(vec![0, 10]);
            v.push(vec![0]);
            v.push(vec![]);
        }
        T_SOA => {
            let firsts = name_encodings(rd_at);
            for (i, n1) in firsts.iter().enumerate() {
                let seconds = name_encodings(rd_at + n1.len());
                for (j, n2) in seconds.iter().enumerate() {
                    // full product only for the first few; otherwise the diagonal and the borders
                    if !(i < 3 || j < 3 || i == j) {
                        continue;
                    }
                    for fixed in [20usize, 19, 21, 0] {
                        if fixed != 20 && !(i < 2 && j < 2) {
                            continue;
                        }
                        let mut r = n1.clone();
                        r.extend(n2.iter());
                        r.extend(std::iter::repeat(9u8).take(fixed));
                        v.push(r);
                    }
                }
            }
            v.push(vec![]);
        }
        T_OPT => {
            v.push(vec![]);
            v.push(vec![0, 8, 0, 0]);
            v.push(vec![0, 8, 0, 2, 5, 6]);
            v.push(vec![0, 8, 0, 0, 0, 9, 0, 1, 7]);
            v.push(vec![0]);
            v.push(vec![0, 8]);
            v.push(vec![0, 8, 0]);
            v.push(vec![0, 8, 0, 3, 5, 6]);
            v.push(vec![0, 8, 0, 1, 5, 6]);
            v.push(vec![0, 8, 0xff, 0xff, 1]);
        }
        _ => {
            v.push(vec![]);
            v.push(vec![1, 2, 3]);
            v.push(vec![0xc0, 0x0c]);
        }
    }
    v
}

/// Calls `f(index, packet)` for every one-record packet of the L2 product. Returns the count.
pub fn one_record_packets(mut f: impl FnMut(u64, &[u8])) -> u64 {
    let mut idx = 0u64;
    let qend = 19usize; // header(12) + [1,'a',0] + type/class
    for qr in [0x80u8, 0] {
        for sec in 0..3usize {
            for owner in name_encodings(qend) {
                let rd_at = qend + owner.len() + 10;
                for &t in L2_TYPES.iter() {
                    for class in [1u16, 3] {
                        if class == 3 && !(t == T_A || t == T_OPT || t == T_NS) {
                            continue;
                        }
                        for rdata in rdata_templates(t, rd_at) {
                            for rdlen_policy in 0..5 {
                                let rdlen: usize = match rdlen_policy {
                                    0 => rdata.len(),
                                    1 => rdata.len().wrapping_sub(1) & 0xffff,
                                    2 => rdata.len() + 1,
                                    3 => 0,
                                    _ => 65535,
                                };
                                for trailing in 0..2 {
                                    let mut p = vec![0x12, 0x34, qr, 0, 0, 1, 0, 0, 0, 0, 0, 0];
                                    p[7 + 2 * sec] = 1;
                                    p.extend_from_slice(&[1, b'a', 0, 0, 1, 0, 1]);
                                    p.extend_from_slice(&owner);
                                    p.extend_from_slice(&t.to_be_bytes());
                                    p.extend_from_slice(&class.to_be_bytes());
                                    p.extend_from_slice(&[0, 0, 0, 60]);
                                    p.extend_from_slice(&(rdlen as u16).to_be_bytes());
                                    p.extend_from_slice(&rdata);
                                    if trailing == 1 {
                                        p.push(0);
                                    }
                                    f(idx, &p);
                                    idx += 1;
                                }
                            }
                        }
                    }
                }
            }
        }
    }
    idx
}

// ---------------------------------------------------------------------------------------------
// L4: damage closure

pub const DAMAGE_VALUES: [u8; 16] = [0, 1, 2, 3, 4, 12, 16, 20, 41, 63, 64, 0x7f, 0xbf, 0xc0, 0xc1, 0xff];

/// Every truncation, single-byte substitution (16 values, +1, -1), one byte removed / inserted at
/// every offset. Calls `f(index, damaged)`; returns the count.
pub fn damage_closure(p: &[u8], mut f: impl FnMut(u64, &[u8])) -> u64 {
    let mut idx = 0u64;
    let mut buf: Vec<u8> = Vec::with_capacity(p.len() + 2);
    for cut in 0..p.len() {
        f(idx, &p[..cut]);
        idx += 1;
    }
    for i in 0..p.len() {
        let orig = p[i];
        let mut vals: Vec<u8> = DAMAGE_VALUES.to_vec();
        vals.push(orig.wrapping_add(1));
        vals.push(orig.wrapping_sub(1));
        for v in vals {
            if v == orig {
                continue;
            }
            buf.clear();
            buf.extend_from_slice(p);
            buf[i] = v;
            f(idx, &buf);
            idx += 1;
        }
        buf.clear();
        buf.extend_from_slice(&p[..i]);
        buf.extend_from_slice(&p[i + 1..]);
        f(idx, &buf);
        idx += 1;
        for v in [0u8, 1, 0xc0] {
            buf.clear();
            buf.extend_from_slice(&p[..i]);
            buf.push(v);
            buf.extend_from_slice(&p[i..]);
            f(idx, &buf);
            idx += 1;
        }
    }
    idx
}

/// All pairs of single-byte substitutions (for short packets; thorough tier).
pub fn damage_pairs(p: &[u8], vals: &[u8], mut f: impl FnMut(u64, &[u8])) -> u64 {
    let mut idx = 0u64;
    let mut buf = p.to_vec();
    for i in 0..p.len() {
        for &a in vals {
            if a == p[i] {
                continue;
            }
            for j in (i + 1)..p.len() {
                for &b in vals {
                    if b == p[j] {
                        continue;
                    }
                    buf[i] = a;
                    buf[j] = b;
                    f(idx, &buf);
                    idx += 1;
                    buf[j] = p[j];
                }
            }
            buf[i] = p[i];
        }
    }
    idx
}

/// A packet containing every special record type, compressed with pointers, OPT in the middle.
pub fn kitchen_sink(strat: Strategy) -> Vec<u8> {
    let q = nm("www.example.com");
    let ex = nm("example.com");
    let mut m = base_msg(&q, T_A, true);
    m.an.push(name_rec(&q, T_CNAME, 300, &nm("web.example.com")));
    m.an.push(a_rec(&nm("web.example.com"), 60, [192, 0, 2, 1]));
    m.an.push(aaaa_rec(&nm("web.example.com"), 60, [0x20; 16]));
    m.ns.push(name_rec(&ex, T_NS, 3600, &nm("ns1.example.com")));
    m.ns.push(soa_rec(&ex, 3600, &nm("ns1.example.com"), &nm("admin.example.com")));
    m.ns.push(dname_rec(&nm("old.example.com"), 5, &nm("new.example.net")));
    m.ar.push(mx_rec(&ex, 100, 10, &nm("mail.example.com")));
    m.ar.push(opt_rec(1232, 0, 0, 0x8000, &[(10, vec![1, 2, 3, 4, 5, 6, 7, 8]), (12, vec![])]));
    m.ar.push(name_rec(&nm("1.2.0.192.in-addr.arpa"), T_PTR, 9, &nm("web.example.com")));
    m.ar.push(txt_rec(&nm("example.com"), 1, b"hello"));
    encode(&m, strat)
}

/// The sub-universe of accepted packets whose damage closure is explored.
pub fn closure_seeds(level: usize) -> Vec<Vec<u8>> {
    let mut v = vec![kitchen_sink(Strategy::Max), kitchen_sink(Strategy::Plain)];
    let a = nm("a");
    let ba = nm("b.a");
    let mut m = base_msg(&ba, T_A, true);
    m.an.push(name_rec(&ba, T_CNAME, 1, &a));
    m.ar.push(opt_rec(512, 0, 0, 0, &[(1, vec![9])]));
    v.push(encode(&m, Strategy::Max));
    v.push(encode(&m, Strategy::Chain));
    let mut m2 = base_msg(&a, T_MX, true);
    m2.an.push(mx_rec(&a, 1, 5, &ba));
    m2.ns.push(soa_rec(&a, 1, &ba, &a));
    v.push(encode(&m2, Strategy::Max));
    let mut m3 = base_msg(&a, T_A, false);
    m3.ar.push(opt_rec(4096, 0, 0, 0x8000, &[]));
    v.push(encode(&m3, Strategy::Plain));
    if level >= 1 {
        v.push(kitchen_sink(Strategy::Chain));
        v.push(kitchen_sink(Strategy::Latest));
        v.push(kitchen_sink(Strategy::OwnersOnly));
        v.push(kitchen_sink(Strategy::TailOnly(1)));
        v.push(encode(&m2, Strategy::Chain));
        v.push(encode(&m2, Strategy::Plain));
        let mut m4 = base_msg(&nm("c.b.a"), T_A, true);
        m4.an.push(dname_rec(&nm("b.a"), 1, &nm("x")));
        m4.an.push(name_rec(&nm("c.b.a"), T_PTR, 1, &nm("c.x")));
        m4.ar.push(aaaa_rec(&nm("c.x"), 1, [1; 16]));
        v.push(encode(&m4, Strategy::Max));
    }
    v
}

// ---------------------------------------------------------------------------------------------
// L5 boundary grids (names, chains, counts, lengths)

/// name with `n` one-byte labels plus root: wire length 2n+1
pub fn name_of_wire_len(total: usize) -> Name {
    // total = sum(len+1) + 1
    assert!(total >= 1);
    let mut n = vec![];
    let mut left = total - 1;
    while left > 0 {
        let take = left.min(64); // label of take-1 bytes
        if take == 1 {
            // cannot have an empty label; fold into the previous label if possible
            let pos = n.len();
            if pos == 0 {
                break;
            }
            // extend last label by one byte: find its start
            let mut o = 0;
            let mut last = 0;
            while o < n.len() {
                last = o;
                o += 1 + n[o] as usize;
            }
            n[last] += 1;
            n.push(b'y');
            left -= 1;
            continue;
        }
        n.push((take - 1) as u8);
        n.extend(std::iter::repeat(b'z').take(take - 1));
        left -= take;
    }
    n.push(0);
    n
}

/// Packet whose answer owner is reached through a chain of `k` pointers, each segment holding
/// one label (so the name has k+1 labels...). Layout: TXT-like opaque filler holding the
/// segments is not possible (pointers must land on label starts anywhere) — so segments live in
/// the rdata of an opaque record placed first.
pub fn pointer_chain_packet(k: usize, seg_label_len: usize) -> Vec<u8> {
    // question "q"; answer 1: type 99 opaque rdata containing segments S_0..S_k laid out in
    // increasing offsets where S_0 = [len,label..,0] and S_i = [len,label..,ptr->S_{i-1}].
    // answer 2: owner = ptr -> S_k  (uses k+1 pointers). With k pointers in total when the owner
    // is S_k written in place... we use: owner = pointer to S_{k-1} => exactly k pointers.
    let mut p = vec![0x12, 0x34, 0x80, 0, 0, 1, 0, 2, 0, 0, 0, 0];
    p.extend_from_slice(&[1, b'q', 0, 0, 1, 0, 1]);
    p.push(0); // owner root
    p.extend_from_slice(&[0, 99, 0, 1, 0, 0, 0, 1, 0, 0]);
    let rdlen_at = p.len() - 2;
    let rd = p.len();
    let mut seg_offsets = vec![];
    for i in 0..k.max(1) {
        seg_offsets.push(p.len());
        p.push(seg_label_len as u8);
        p.extend(std::iter::repeat(b'a' + (i % 26) as u8).take(seg_label_len));
        if i == 0 {
            p.push(0);
        } else {
            let t = seg_offsets[i - 1];
            p.push(0xc0 | (t >> 8) as u8);
            p.push(t as u8);
        }
    }
    let rdlen = p.len() - rd;
    p[rdlen_at] = (rdlen >> 8) as u8;
    p[rdlen_at + 1] = rdlen as u8;
    // second answer: owner = pointer to the last segment => pointers used = k (k>=1)
    let t = *seg_offsets.last().unwrap();
    if k == 0 {
        p.extend_from_slice(&[1, b'n', 0]);
    } else {
        p.push(0xc0 | (t >> 8) as u8);
        p.push(t as u8);
    }
    p.extend_from_slice(&[0, 1, 0, 1, 0, 0, 0, 1, 0, 4, 1, 2, 3, 4]);
    p
}

/// Packets in which a name starts exactly at offset `t` (e.g. 255, 256, 257, 512: pointer bytes c1 00,
/// c2 00 ...) and later owner and rdata names point at it and at its inner suffix.
pub fn aligned_pointer_packets() -> Vec<Vec<u8>> {
    let mut v = vec![];
    let mut ts: Vec<usize> = vec![254, 255, 256, 257, 258, 511, 512, 513, 767, 768, 1024];
    ts.extend(259usize..=270);
    ts.extend(520usize..=526);
    ts.extend([250usize, 251, 252, 253, 1036]);
    // names at and around the offsets where a further bit of the 14-bit pointer comes into play, and the last
    // offsets a pointer can express
    ts.extend([2047usize, 2048, 4095, 4096, 8191, 8192, 8193, 16377, 16378]);
    for t in ts {
        for with_opt in [false, true] {
            let q = nm("q.test");
            let mut p = vec![0x12, 0x34, 0x81, 0x80, 0, 1, 0, 5, 0, 1, 0, if with_opt { 2 } else { 1 }];
            p.extend_from_slice(&q);
            p.extend_from_slice(&[0, 1, 0, 1]);
            // filler TXT record (owner root) sized so that the next record's owner starts at t
            let fixed = 1 + 10;
            let fill = t - p.len() - fixed;
            p.push(0);
            p.extend_from_slice(&[0, 16, 0, 1, 0, 0, 0, 9]);
            p.extend_from_slice(&(fill as u16).to_be_bytes());
            p.push((fill - 1).min(255) as u8);
            p.extend(std::iter::repeat(b'f').take(fill - 1));
            assert_eq!(p.len(), t);
            // literal name at t: "host.zone.example"
            let name = nm("host.zone.example");
            p.extend_from_slice(&name);
            p.extend_from_slice(&[0, 1, 0, 1, 0, 0, 0, 1, 0, 4, 1, 2, 3, 4]);
            let ptr = |o: usize| [0xc0 | (o >> 8) as u8, o as u8];
            // owner = pointer to t ; CNAME target = label + pointer to inner suffix (t+5)
            p.extend_from_slice(&ptr(t));
            p.extend_from_slice(&[0, 5, 0, 1, 0, 0, 0, 2, 0, 6, 3, b'w', b'w', b'w']);
            p.extend_from_slice(&ptr(t + 5));
            // owner = label + pointer to t ; MX target = pointer to t
            p.extend_from_slice(&[2, b'm', b'x']);
            p.extend_from_slice(&ptr(t));
            p.extend_from_slice(&[0, 15, 0, 1, 0, 0, 0, 3, 0, 4, 0, 7]);
            p.extend_from_slice(&ptr(t));
            // NS whose whole target is a bare pointer to t (data ends in the pointer's low byte)
            p.extend_from_slice(&[1, b'n']);
            p.extend_from_slice(&ptr(t + 5));
            p.extend_from_slice(&[0, 2, 0, 1, 0, 0, 0, 6, 0, 2]);
            p.extend_from_slice(&ptr(t));
            // authority: SOA with both names pointing at t and t+5
            p.extend_from_slice(&ptr(t + 5));
            p.extend_from_slice(&[0, 6, 0, 1, 0, 0, 0, 4, 0, 24]);
            p.extend_from_slice(&ptr(t));
            p.extend_from_slice(&ptr(t + 5));
            p.extend_from_slice(&[7; 20]);
            // additional: A owned by pointer to t (and OPT)
            if with_opt {
                p.extend_from_slice(&[0, 0, 41, 4, 0, 0, 0, 0, 0, 0, 0]);
            }
            p.extend_from_slice(&ptr(t));
            p.extend_from_slice(&[0, 1, 0, 1, 0, 0, 0, 5, 0, 4, 9, 9, 9, 9]);
            assert!(wf(&p).is_ok(), "aligned packet ill-formed: {:?}", wf(&p));
            v.push(p);
        }
    }
    v
}

/// One accepted packet per (record type, data shape): data that looks like names/pointers must be treated as
/// opaque for every type the library does not understand. Calls f(index, packet) for the accepted ones.
pub fn all_types_packets(pointer_free_only: bool, mut f: impl FnMut(u64, &[u8])) -> u64 {
    // the last two: data that is exactly one pointer-free name sharing a suffix with (or equal to) the question name
    let shapes: [&[u8]; 7] = [&[0xc0, 0x0c], &[1, b'z', 0], &[0, 5, 0xc0, 0x0c], &[3, b'w', b'w', b'w', 0xc0, 0x0c], &[0xc0, 0x0c, 0xc0, 0x0c, 9, 9, 9, 9, 9, 9, 9, 9, 9, 9, 9, 9, 9, 9, 9, 9, 9, 9, 9, 9], &[4, b'm', b'a', b'i', b'l', 1, b'q', 1, b'a', 0], &[1, b'q', 1, b'a', 0]];
    let mut n = 0u64;
    for t in 0..=0xffffu32 {
        for sh in shapes.iter() {
            let mut p = vec![0x12, 0x34, 0x81, 0x80, 0, 1, 0, 1, 0, 0, 0, 1];
            p.extend_from_slice(&[1, b'q', 1, b'a', 0, 0, 1, 0, 1]);
            if pointer_free_only {
                p.extend_from_slice(&[1, b'q', 1, b'a', 0]);
            } else {
                p.extend_from_slice(&[0xc0, 12]);
            }
            p.extend_from_slice(&(t as u16).to_be_bytes());
            p.extend_from_slice(&[0, 1, 0, 0, 0, 9]);
            p.extend_from_slice(&(sh.len() as u16).to_be_bytes());
            p.extend_from_slice(sh);
            // a trailing A record so that offsets after the odd record matter
            p.extend_from_slice(&[1, b'q', 1, b'a', 0, 0, 1, 0, 1, 0, 0, 0, 1, 0, 4, 1, 2, 3, 4]);
            if wf(&p).is_err() {
                continue;
            }
            if pointer_free_only && !decode(&p).map(|d| d.pointer_free).unwrap_or(false) {
                continue;
            }
            f(n, &p);
            n += 1;
        }
    }
    n
}

/// Accepted packets whose question name runs through the header bytes (pointer to offset 0), as bare
/// queries, as empty responses and followed by records.
pub fn into_header_packets() -> Vec<Vec<u8>> {
    let mut v = vec![];
    // query: id = [1,'a'], flags high byte 0 = root
    let mut q = vec![1, b'A', 0, 0, 0, 1, 0, 0, 0, 0, 0, 0, 0xc0, 0, 0, 1, 0, 1];
    v.push(q.clone());
    q[11] = 1;
    q.extend_from_slice(&[0, 0, 41, 4, 0, 0, 0, 0, 0, 0, 0]);
    v.push(q);
    // response: id = [2,'a'], flags high byte (>= 0x80) is the second label byte, flags low byte 0 = root
    let mut r = vec![2, b'a', 0x84, 0, 0, 1, 0, 0, 0, 0, 0, 0, 0xc0, 0, 0, 1, 0, 1];
    v.push(r.clone());
    r[7] = 1;
    r.extend_from_slice(&[0xc0, 0, 0, 5, 0, 1, 0, 0, 0, 1, 0, 4, 1, b'w', 0xc0, 0]);
    v.push(r.clone());
    // label then pointer into the header
    let mut l = vec![1, b'a', 0, 0, 0, 1, 0, 0, 0, 0, 0, 0, 1, b'W', 0xc0, 0, 0, 1, 0, 1];
    v.push(l.clone());
    l[11] = 1;
    l.extend_from_slice(&[0xc0, 12, 0, 1, 0, 1, 0, 0, 0, 1, 0, 4, 1, 2, 3, 4]);
    v.push(l);
    for p in &v {
        assert!(wf(p).is_ok(), "into-header packet ill-formed {:?}", wf(p));
    }
    v
}

/// Every 16-bit value of each length-type field: rdlen of an OPT / A / NS / MX / SOA / DNAME / opaque record
/// (with 0 and 24 data bytes present) and the length of an EDNS option (alone, and after a first valid option).
pub fn length_field_packets(mut f: impl FnMut(u64, &[u8])) -> u64 {
    let mut n = 0u64;
    let head = |ar: bool| {
        let mut p = vec![0x12, 0x34, 0x80, 0, 0, 1, 0, if ar { 0 } else { 1 }, 0, 0, 0, if ar { 1 } else { 0 }];
        p.extend_from_slice(&[1, b'a', 0, 0, 1, 0, 1]);
        p
    };
    for v in 0..=0xffffu32 {
        let v = v as u16;
        for t in [41u16, 1, 2, 15, 6, 39, 99] {
            for data in [0usize, 24] {
                let mut p = head(t == 41);
                p.push(0);
                p.extend_from_slice(&t.to_be_bytes());
                p.extend_from_slice(&[0, 1, 0, 0, 0, 0]);
                p.extend_from_slice(&v.to_be_bytes());
                p.extend(std::iter::repeat(0u8).take(data));
                f(n, &p);
                n += 1;
            }
        }
        for first in [false, true] {
            for data in [0usize, 8] {
                let mut p = head(true);
                p.extend_from_slice(&[0, 0, 41, 4, 0, 0, 0, 0, 0]);
                let rdlen = (if first { 4 } else { 0 }) + 4 + data;
                p.extend_from_slice(&(rdlen as u16).to_be_bytes());
                if first {
                    p.extend_from_slice(&[0, 8, 0, 0]);
                }
                p.extend_from_slice(&[0, 10]);
                p.extend_from_slice(&v.to_be_bytes());
                p.extend(std::iter::repeat(0u8).take(data));
                f(n, &p);
                n += 1;
            }
        }
    }
    n
}

/// Every value of each header count, every 14-bit pointer target (as owner and as rdata name) on two base
/// packets, every pair (first byte, second byte) at the start of the question name and of an owner name.
pub fn field_value_packets(mut f: impl FnMut(u64, &[u8])) -> u64 {
    let mut n = 0u64;
    let base = kitchen_sink(Strategy::Max);
    let small = {
        let mut m = base_msg(&nm("b.a"), T_A, true);
        m.an.push(name_rec(&nm("b.a"), T_CNAME, 1, &nm("a")));
        encode(&m, Strategy::Max)
    };
    for v in 0..=0xffffu32 {
        for pos in [4usize, 6, 8, 10] {
            let mut p = small.clone();
            p[pos] = (v >> 8) as u8;
            p[pos + 1] = v as u8;
            f(n, &p);
            n += 1;
        }
        // first two bytes of the question name / of an owner name
        let mut p = vec![0x12, 0x34, 0x80, 0, 0, 1, 0, 0, 0, 0, 0, 0, (v >> 8) as u8, v as u8, b'a', 0, 0, 1, 0, 1];
        f(n, &p);
        n += 1;
        p = small[..small.len()].to_vec();
        let own = 12 + 5 + 4; // owner of the first answer
        p[own] = (v >> 8) as u8;
        p[own + 1] = v as u8;
        f(n, &p);
        n += 1;
    }
    for t in 0..0x4000usize {
        for bp in [&base, &small] {
            // a trailing record whose owner is the pointer t, and a CNAME whose target is the pointer t
            for kind in 0..2 {
                let mut p = bp.clone();
                let an = ((p[6] as u16) << 8 | p[7] as u16) + 1;
                // append to the additional section (last) and bump arcount
                let ar = ((p[10] as u16) << 8 | p[11] as u16) + 1;
                let _ = an;
                p[10] = (ar >> 8) as u8;
                p[11] = ar as u8;
                if kind == 0 {
                    p.extend_from_slice(&[0xc0 | (t >> 8) as u8, t as u8, 0, 1, 0, 1, 0, 0, 0, 1, 0, 4, 1, 2, 3, 4]);
                } else {
                    p.extend_from_slice(&[0, 0, 5, 0, 1, 0, 0, 0, 1, 0, 2, 0xc0 | (t >> 8) as u8, t as u8]);
                }
                f(n, &p);
                n += 1;
            }
        }
    }
    n
}

/// For every byte value that may appear in a label: a message with names that contain it, its bit-5 twin and
/// its ASCII-case twin, as owners and inside NS/MX/SOA data (pointer-free encoding).
pub fn all_label_bytes_messages() -> Vec<Msg> {
    let mut v = vec![];
    for b in 0x20u8..=0xff {
        if forbidden_label_byte(b) {
            continue;
        }
        let twin5 = b ^ 0x20;
        if forbidden_label_byte(twin5) {
            continue;
        }
        let n1 = name_from_labels(&[&[b'p', b, b'q'], b"zz"]);
        let n2 = name_from_labels(&[&[b'p', twin5, b'q'], b"zz"]);
        let n3 = name_from_labels(&[&[b'P', b.to_ascii_uppercase(), b'Q'], b"ZZ"]);
        let mut m = base_msg(&n1, T_A, true);
        m.an.push(name_rec(&n2, T_CNAME, 1, &n3));
        m.an.push(mx_rec(&n3, 1, 1, &n1));
        m.ns.push(soa_rec(&n2, 1, &n1, &n3));
        m.ar.push(a_rec(&n2, 1, [1, 2, 3, b]));
        v.push(m);
    }
    v
}

/// Pointer chains whose segments are laid out in every order: the owner points at S_{k-1}, S_i ends in a
/// pointer to S_{i-1}, S_0 ends in the root. Only the layout in which every hop goes backward is well-formed.
pub fn permuted_chain_packets() -> Vec<Vec<u8>> {
    fn perms(n: usize) -> Vec<Vec<usize>> {
        if n == 1 {
            return vec![vec![0]];
        }
        let mut out = vec![];
        for p in perms(n - 1) {
            for i in 0..n {
                let mut q = p.clone();
                q.insert(i, n - 1);
                out.push(q);
            }
        }
        out
    }
    let mut v = vec![];
    for k in 2..=4usize {
        for order in perms(k) {
            // order[j] = which segment is laid out j-th; every segment is 4 bytes: [1, label, ptr/ptr] or [1,label,0,pad]
            let mut p = vec![0x12, 0x34, 0x80, 0, 0, 1, 0, 2, 0, 0, 0, 0];
            p.extend_from_slice(&[1, b'q', 0, 0, 1, 0, 1]);
            p.push(0);
            p.extend_from_slice(&[0, 99, 0, 1, 0, 0, 0, 1]);
            p.extend_from_slice(&((4 * k) as u16).to_be_bytes());
            let base = p.len();
            let pos_of = |seg: usize| base + 4 * order.iter().position(|&x| x == seg).unwrap();
            for &seg in &order {
                p.push(1);
                p.push(b'a' + seg as u8);
                if seg == 0 {
                    p.extend_from_slice(&[0, 0]);
                } else {
                    let t = pos_of(seg - 1);
                    p.extend_from_slice(&[0xc0 | (t >> 8) as u8, t as u8]);
                }
            }
            let t = pos_of(k - 1);
            p.extend_from_slice(&[0xc0 | (t >> 8) as u8, t as u8]);
            p.extend_from_slice(&[0, 1, 0, 1, 0, 0, 0, 1, 0, 4, 1, 2, 3, 4]);
            v.push(p);
        }
    }
    v
}

/// Seed packets with each single header flag bit set (and all set) x every truncation, and with every
/// record count inflated to 255 / 65535: a flag must never make a cut packet acceptable.
pub fn flags_truncation_packets(mut f: impl FnMut(u64, &[u8])) -> u64 {
    let mut n = 0u64;
    let mut seeds: Vec<Vec<u8>> = closure_seeds(0);
    // an expensive shared name: 120 one-byte labels as question, records pointing at it
    let long = name_of_wire_len(241);
    let mut m = base_msg(&long, T_A, true);
    m.an.push(name_rec(&long, T_NS, 1, &long));
    m.ns.push(mx_rec(&long, 1, 1, &long));
    seeds.push(encode(&m, Strategy::Max));
    // two OPT records with ordinary records between and after them
    {
        let mut m = base_msg(&long, T_A, true);
        m.ar.push(opt_variants()[0].clone());
        m.ar.push(soa_rec(&long, 1, &long, &long));
        m.ar.push(opt_variants()[1].clone());
        m.ar.push(name_rec(&long, T_NS, 1, &long));
        seeds.push(encode(&m, Strategy::Max));
    }
    // an RRset: three records of one type whose owner is written out once (a name unrelated to the question)
    // and then named by bare pointers; and the same with an NS set
    for t in [T_A, T_NS] {
        let xy = nm("x.y");
        let mut m = base_msg(&nm("b.a"), T_A, true);
        for i in 0..3u8 {
            if t == T_A {
                m.an.push(a_rec(&xy, 300, [10, 0, 0, i]));
            } else {
                m.an.push(name_rec(&xy, T_NS, 300, &nm(&format!("ns{}.x.y", i))));
            }
        }
        m.ar.push(a_rec(&xy, 5, [10, 0, 0, 9]));
        seeds.push(encode(&m, Strategy::Max));
    }
    for s in seeds.iter().filter(|s| s.len() < 400) {
        for bit in 0..=16u32 {
            let mut b = s.clone();
            let w: u16 = if bit == 16 { 0xffff } else { 1 << bit };
            b[2] |= (w >> 8) as u8;
            b[3] |= w as u8;
            for counts in 0..5 {
                let mut c = b.clone();
                if counts > 0 {
                    let v: u16 = if counts % 2 == 1 { 255 } else { 65535 };
                    // every count, or the additional count alone
                    let fields: &[usize] = if counts <= 2 { &[6, 8, 10] } else { &[10] };
                    for &pos in fields {
                        c[pos] = (v >> 8) as u8;
                        c[pos + 1] = v as u8;
                    }
                }
                for cut in 12..=c.len() {
                    f(n, &c[..cut]);
                    n += 1;
                }
            }
        }
    }
    n
}

/// Responses with a ROOT question name, every record count at 65535 (or 2), and every tail of up to 8 bytes
/// over {00, 01, 04, 0c, c0}: owners that point at the root label, at the question's fixed part, at
/// themselves; the question type is one that admits empty data (TXT, unknown) or not (A). A parser whose
/// cursor can be sent back into bytes it has already read visits records without consuming input here.
pub fn root_pointer_packets(max_tail: usize, mut f: impl FnMut(u64, &[u8])) -> u64 {
    let alpha: [u8; 5] = [0x00, 0x01, 0x04, 0x0c, 0xc0];
    let tails = Tails { alphabet: &alpha, max_len: max_tail };
    let n = tails.count();
    let mut g = 0u64;
    let mut tail = vec![];
    let mut buf: Vec<u8> = vec![];
    for counts in [0xffffu16, 2] {
        for qtype in [16u16, 99, 1] {
            for i in 0..n {
                tails.get(i, &mut tail);
                buf.clear();
                buf.extend_from_slice(&[0, 0, 0x80, 0, 0, 1]);
                for _ in 0..3 {
                    buf.extend_from_slice(&counts.to_be_bytes());
                }
                buf.push(0);
                buf.extend_from_slice(&qtype.to_be_bytes());
                buf.extend_from_slice(&[0, 1]);
                buf.extend_from_slice(&tail);
                f(g, &buf);
                g += 1;
            }
        }
    }
    g
}

/// Parameters of one packet of the "very many small records" family.
#[derive(Clone, Copy, Debug)]
pub struct ManyParams {
    pub kind: usize,  // 0: root owner, unknown type, no data (11 bytes); 1: owner = pointer to the question, A (16 bytes); 2: root owner TXT with empty data
    pub n: usize,     // records
    pub split: usize, // 0: all answers, 1: all additional, 2: a third each
    pub q: usize,     // 0: root question, 1: example.com
}

pub fn many_params() -> Vec<ManyParams> {
    let mut v = vec![];
    for kind in 0..3 {
        for n in [5usize, 6, 17, 18, 19, 100, 1000, 5000, 20000, 65535] {
            for split in 0..3 {
                for q in 0..2 {
                    v.push(ManyParams { kind, n, split, q });
                }
            }
        }
    }
    v
}

/// Well-formed by construction: a response with a question and `n` genuine minimal records.
pub fn many_record_packet(p: ManyParams) -> Vec<u8> {
    let (an, ns, ar) = match p.split {
        0 => (p.n, 0, 0),
        1 => (0, 0, p.n),
        _ => (p.n / 3, p.n / 3, p.n - 2 * (p.n / 3)),
    };
    let mut b = vec![0x12, 0x34, 0x84, 0x00, 0, 1];
    for c in [an, ns, ar] {
        b.extend_from_slice(&(c as u16).to_be_bytes());
    }
    if p.q == 0 {
        b.push(0);
    } else {
        b.extend_from_slice(&nm("example.com"));
    }
    b.extend_from_slice(&[0, 1, 0, 1]);
    for i in 0..p.n {
        match p.kind {
            0 => b.extend_from_slice(&[0, 0xff, 0x01, 0, 1, 0, 0, 0, (i % 251) as u8, 0, 0]),
            1 => b.extend_from_slice(&[0xc0, 12, 0, 1, 0, 1, 0, 0, 0, (i % 251) as u8, 0, 4, 10, 0, (i >> 8) as u8, i as u8]),
            _ => b.extend_from_slice(&[0, 0, 16, 0, 1, 0, 0, 0, (i % 251) as u8, 0, 0]),
        }
    }
    b
}
