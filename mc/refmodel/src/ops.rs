//! Abstract operations on the abstract message: one per public mutation of the library.
//! Each is a few lines of list manipulation, written from the property statements.

use crate::msg::*;
use crate::wire::*;

#[derive(Clone, Debug, PartialEq, Eq)]
pub enum OpErr {
    NameTooLong,
    BadName,
    SecondQuestion,
    NoSuchRecord,
    TooLarge,
    TooMany,
    WrongFamily,
    NotAnAddress,
}

pub fn eq_ci(a: &[u8], b: &[u8]) -> bool {
    a.len() == b.len() && a.iter().zip(b.iter()).all(|(x, y)| x.eq_ignore_ascii_case(y))
}

/// The renamed form of one name, None if it does not match.
pub fn rename_name(name: &[u8], target: &[u8], source: &[u8], suffix_mode: bool) -> Result<Option<Name>, OpErr> {
    let cut = if suffix_mode {
        suffix_offsets(name).into_iter().find(|&o| eq_ci(&name[o..], source))
    } else if eq_ci(name, source) {
        Some(0)
    } else {
        None
    };
    match cut {
        None => Ok(None),
        Some(o) => {
            if o + target.len() > 255 {
                return Err(OpErr::NameTooLong);
            }
            let mut n = name[..o].to_vec();
            n.extend_from_slice(target);
            Ok(Some(n))
        }
    }
}

fn rn(name: &mut Name, t: &[u8], s: &[u8], sm: bool) -> Result<(), OpErr> {
    if let Some(n) = rename_name(name, t, s, sm)? {
        *name = n;
    }
    Ok(())
}

pub fn rename(m: &Msg, target: &[u8], source: &[u8], suffix_mode: bool) -> Result<Msg, OpErr> {
    let mut m = m.clone();
    for q in m.q.iter_mut() {
        rn(&mut q.name, target, source, suffix_mode)?;
    }
    for sec in [Sec::Answer, Sec::Authority, Sec::Additional] {
        for r in m.sec_mut(sec).iter_mut() {
            if r.rtype == T_OPT {
                continue;
            }
            rn(&mut r.owner, target, source, suffix_mode)?;
            match &mut r.rdata {
                Rdata::Name(n) => rn(n, target, source, suffix_mode)?,
                Rdata::Mx(_, n) => rn(n, target, source, suffix_mode)?,
                Rdata::Soa(a, b, _) => {
                    rn(a, target, source, suffix_mode)?;
                    rn(b, target, source, suffix_mode)?;
                }
                Rdata::Opaque(_) => {}
            }
        }
    }
    Ok(m)
}

/// Equality used for outputs of compress/rename: names up to ASCII case, and the position of the
/// OPT record inside the additional section is not constrained (the statements list "record order"
/// and "the OPT record" separately); every non-OPT record keeps its relative order.
pub fn equiv_mod_case_and_opt_position(a: &Msg, b: &Msg) -> bool {
    let (a, b) = (a.folded(), b.folded());
    let split = |m: &Msg| -> (Vec<Rec>, Vec<Rec>) {
        let opt: Vec<Rec> = m.ar.iter().filter(|r| r.rtype == T_OPT).cloned().collect();
        let rest: Vec<Rec> = m.ar.iter().filter(|r| r.rtype != T_OPT).cloned().collect();
        (opt, rest)
    };
    a.id == b.id && a.flags == b.flags && a.q == b.q && a.an == b.an && a.ns == b.ns && split(&a) == split(&b)
}

/// first difference between two messages, for reports
pub fn diff(a: &Msg, b: &Msg) -> String {
    if a.id != b.id || a.flags != b.flags {
        return format!("header differs: {:04x}/{:04x} vs {:04x}/{:04x}", a.id, a.flags, b.id, b.flags);
    }
    if a.q != b.q {
        return format!("question differs: {:?} vs {:?}", a.q, b.q);
    }
    for (tag, x, y) in [("answer", &a.an, &b.an), ("authority", &a.ns, &b.ns), ("additional", &a.ar, &b.ar)] {
        if x.len() != y.len() {
            return format!("{} count differs: {} vs {}", tag, x.len(), y.len());
        }
        for (i, (r, s)) in x.iter().zip(y.iter()).enumerate() {
            if r != s {
                return format!("{} record {} differs: {:?} vs {:?}", tag, i, r, s);
            }
        }
    }
    "equal".into()
}
