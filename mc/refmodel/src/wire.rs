//! The wire policy of the parser, restated independently (DESIGN.md §2.1).
//! This module never calls dnssector. It is the oracle for C01/C02 and is used by
//! every generator to assert that what it generates is well-formed.

pub const T_A: u16 = 1;
pub const T_NS: u16 = 2;
pub const T_CNAME: u16 = 5;
pub const T_SOA: u16 = 6;
pub const T_PTR: u16 = 12;
pub const T_MX: u16 = 15;
pub const T_TXT: u16 = 16;
pub const T_AAAA: u16 = 28;
pub const T_DNAME: u16 = 39;
pub const T_OPT: u16 = 41;
pub const T_DS: u16 = 43;

#[derive(Clone, Copy, Debug, PartialEq, Eq, Hash, PartialOrd, Ord)]
pub enum Clause {
    HeaderShort,
    QdCount,
    QName,
    QFixed,
    QClass,
    QueryWithRecords,
    OwnerName,
    FixedPart,
    RdataPresent,
    ALen,
    AaaaLen,
    NameRdata,
    MxRdata,
    SoaRdata,
    DnameRdata,
    OptSection,
    OptOwner,
    OptDuplicate,
    OptTiling,
    Trailing,
}

pub const ALL_CLAUSES: [Clause; 20] = [
    Clause::HeaderShort,
    Clause::QdCount,
    Clause::QName,
    Clause::QFixed,
    Clause::QClass,
    Clause::QueryWithRecords,
    Clause::OwnerName,
    Clause::FixedPart,
    Clause::RdataPresent,
    Clause::ALen,
    Clause::AaaaLen,
    Clause::NameRdata,
    Clause::MxRdata,
    Clause::SoaRdata,
    Clause::DnameRdata,
    Clause::OptSection,
    Clause::OptOwner,
    Clause::OptDuplicate,
    Clause::OptTiling,
    Clause::Trailing,
];

#[derive(Clone, Copy, Debug, PartialEq, Eq, Hash)]
pub enum NameErr {
    StartOutside,
    AboveCeiling,
    LabelType,
    LabelOverrun,
    TooLong,
    Charset,
    PointerCut,
    PointerNotBackward,
    PointerToRoot,
    TooManyPointers,
    PointerForbidden,
}

#[derive(Clone, Debug, PartialEq, Eq)]
pub struct NameInfo {
    /// the byte after the first pointer, or after the root if there is none
    pub end: usize,
    /// expanded wire form: length-prefixed labels + root
    pub expanded: Vec<u8>,
    pub pointers: usize,
}

pub fn forbidden_label_byte(c: u8) -> bool {
    c < 0x20 || c == 0x7f || c == b'.' || c == b'\\'
}

#[inline]
pub fn be16(p: &[u8], o: usize) -> u16 {
    ((p[o] as u16) << 8) | p[o + 1] as u16
}

#[inline]
pub fn be32(p: &[u8], o: usize) -> u32 {
    ((p[o] as u32) << 24) | ((p[o + 1] as u32) << 16) | ((p[o + 2] as u32) << 8) | p[o + 3] as u32
}

/// Strict (compressible) name starting at `s`.
pub fn name_strict(p: &[u8], s: usize) -> Result<NameInfo, NameErr> {
    let len = p.len();
    if s >= len {
        return Err(NameErr::StartOutside);
    }
    let mut seg_start = s; // start of the current segment
    let mut ceiling = len; // every length/root/pointer byte of the segment lies below it
    let mut o = s;
    let mut end = None;
    let mut pointers = 0usize;
    let mut expanded = Vec::new();
    loop {
        if o >= ceiling {
            return Err(NameErr::AboveCeiling);
        }
        let b = p[o];
        if b & 0xc0 == 0xc0 {
            if pointers >= 16 {
                return Err(NameErr::TooManyPointers);
            }
            pointers += 1;
            if o + 1 >= len {
                return Err(NameErr::PointerCut);
            }
            let t = (((b & 0x3f) as usize) << 8) | p[o + 1] as usize;
            if t >= seg_start {
                return Err(NameErr::PointerNotBackward);
            }
            if p[t] == 0 {
                return Err(NameErr::PointerToRoot);
            }
            if end.is_none() {
                end = Some(o + 2);
            }
            ceiling = seg_start;
            seg_start = t;
            o = t;
            continue;
        }
        if b > 63 {
            return Err(NameErr::LabelType);
        }
        let l = b as usize;
        if o + l >= len {
            return Err(NameErr::LabelOverrun);
        }
        if expanded.len() + l + 1 > 255 {
            return Err(NameErr::TooLong);
        }
        if p[o + 1..o + 1 + l].iter().any(|&c| forbidden_label_byte(c)) {
            return Err(NameErr::Charset);
        }
        expanded.extend_from_slice(&p[o..o + 1 + l]);
        o += l + 1;
        if l == 0 {
            break;
        }
    }
    Ok(NameInfo {
        end: end.unwrap_or(o),
        expanded,
        pointers,
    })
}

/// Pointer-free name, any label bytes (DNAME targets; arguments of set_raw_name).
pub fn name_plain(p: &[u8], s: usize) -> Result<NameInfo, NameErr> {
    let len = p.len();
    if s >= len {
        return Err(NameErr::StartOutside);
    }
    let mut o = s;
    let mut expanded = Vec::new();
    loop {
        if o >= len {
            return Err(NameErr::AboveCeiling);
        }
        let b = p[o];
        if b & 0xc0 == 0xc0 {
            return Err(NameErr::PointerForbidden);
        }
        if b > 63 {
            return Err(NameErr::LabelType);
        }
        let l = b as usize;
        if o + l >= len {
            return Err(NameErr::LabelOverrun);
        }
        if expanded.len() + l + 1 > 255 {
            return Err(NameErr::TooLong);
        }
        expanded.extend_from_slice(&p[o..o + 1 + l]);
        o += l + 1;
        if l == 0 {
            break;
        }
    }
    Ok(NameInfo {
        end: o,
        expanded,
        pointers: 0,
    })
}

/// Is `n` (a complete slice) exactly one well-formed pointer-free wire name?
pub fn is_plain_name(n: &[u8]) -> bool {
    matches!(name_plain(n, 0), Ok(i) if i.end == n.len())
}

/// Same, and the labels obey the parser's character policy.
pub fn is_strict_plain_name(n: &[u8]) -> bool {
    matches!(name_strict(n, 0), Ok(i) if i.end == n.len() && i.pointers == 0)
}

#[derive(Clone, Copy, Debug, PartialEq, Eq, Hash, PartialOrd, Ord)]
pub enum Sec {
    Question,
    Answer,
    Authority,
    Additional,
}

/// The packet policy. Returns the first failing clause.
pub fn wf(p: &[u8]) -> Result<(), Clause> {
    let len = p.len();
    if len < 12 {
        return Err(Clause::HeaderShort);
    }
    let qr = p[2] & 0x80 != 0;
    let qd = be16(p, 4);
    let an = be16(p, 6);
    let ns = be16(p, 8);
    let ar = be16(p, 10);
    if qd != 1 {
        return Err(Clause::QdCount);
    }
    let mut o = 12usize;
    let qn = name_strict(p, o).map_err(|_| Clause::QName)?;
    o = qn.end;
    if o + 4 > len {
        return Err(Clause::QFixed);
    }
    if be16(p, o + 2) != 1 {
        return Err(Clause::QClass);
    }
    o += 4;
    if !qr && an > 0 {
        return Err(Clause::QueryWithRecords);
    }
    let mut seen_opt = false;
    let sections = [(Sec::Answer, an), (Sec::Authority, ns), (Sec::Additional, ar)];
    for (si, &(sec, count)) in sections.iter().enumerate() {
        if si == 1 && !qr && count > 0 {
            return Err(Clause::QueryWithRecords);
        }
        for _ in 0..count {
            let start = o;
            let owner = name_strict(p, o).map_err(|_| Clause::OwnerName)?;
            o = owner.end;
            if o + 10 > len {
                return Err(Clause::FixedPart);
            }
            let rtype = be16(p, o);
            let rdlen = be16(p, o + 8) as usize;
            let rd = o + 10;
            match rtype {
                T_OPT => {
                    if sec != Sec::Additional {
                        return Err(Clause::OptSection);
                    }
                    if !(owner.end - start == 1) {
                        return Err(Clause::OptOwner);
                    }
                    if seen_opt {
                        return Err(Clause::OptDuplicate);
                    }
                    seen_opt = true;
                    if rd + rdlen > len {
                        return Err(Clause::RdataPresent);
                    }
                    let stop = rd + rdlen;
                    let mut q = rd;
                    while q < stop {
                        if q + 4 > stop {
                            return Err(Clause::OptTiling);
                        }
                        let ol = be16(p, q + 2) as usize;
                        if q + 4 + ol > stop {
                            return Err(Clause::OptTiling);
                        }
                        q += 4 + ol;
                    }
                    o = stop;
                }
                T_NS | T_CNAME | T_PTR => {
                    let n = name_strict(p, rd).map_err(|_| Clause::NameRdata)?;
                    if n.end != rd + rdlen {
                        return Err(Clause::NameRdata);
                    }
                    o = rd + rdlen;
                }
                T_MX => {
                    if rdlen < 3 {
                        return Err(Clause::MxRdata);
                    }
                    let n = name_strict(p, rd + 2).map_err(|_| Clause::MxRdata)?;
                    if n.end != rd + rdlen {
                        return Err(Clause::MxRdata);
                    }
                    o = rd + rdlen;
                }
                T_SOA => {
                    let n1 = name_strict(p, rd).map_err(|_| Clause::SoaRdata)?;
                    let n2 = name_strict(p, n1.end).map_err(|_| Clause::SoaRdata)?;
                    if n2.end + 20 != rd + rdlen {
                        return Err(Clause::SoaRdata);
                    }
                    if rd + rdlen > len {
                        return Err(Clause::RdataPresent);
                    }
                    o = rd + rdlen;
                }
                T_DNAME => {
                    let n = name_plain(p, rd).map_err(|_| Clause::DnameRdata)?;
                    if n.end != rd + rdlen {
                        return Err(Clause::DnameRdata);
                    }
                    o = rd + rdlen;
                }
                T_A => {
                    if rdlen != 4 {
                        return Err(Clause::ALen);
                    }
                    if rd + rdlen > len {
                        return Err(Clause::RdataPresent);
                    }
                    o = rd + rdlen;
                }
                T_AAAA => {
                    if rdlen != 16 {
                        return Err(Clause::AaaaLen);
                    }
                    if rd + rdlen > len {
                        return Err(Clause::RdataPresent);
                    }
                    o = rd + rdlen;
                }
                _ => {
                    if rd + rdlen > len {
                        return Err(Clause::RdataPresent);
                    }
                    o = rd + rdlen;
                }
            }
        }
    }
    if o != len {
        return Err(Clause::Trailing);
    }
    Ok(())
}
