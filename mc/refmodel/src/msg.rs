//! Abstract DNS message, lenient decoder, encoder with several compression strategies,
//! and the "view" a correct ParsedPacket must hold for given bytes. Never calls dnssector.

use crate::wire::*;

pub type Name = Vec<u8>; // expanded wire form (labels + root), case preserved

#[derive(Clone, Debug, PartialEq, Eq, Hash, PartialOrd, Ord)]
pub enum Rdata {
    Name(Name),
    Mx(u16, Name),
    Soa(Name, Name, [u8; 20]),
    Opaque(Vec<u8>),
}

#[derive(Clone, Debug, PartialEq, Eq, Hash, PartialOrd, Ord)]
pub struct Rec {
    pub owner: Name,
    pub rtype: u16,
    pub class: u16,
    pub ttl: u32,
    pub rdata: Rdata,
}

#[derive(Clone, Debug, PartialEq, Eq, Hash, PartialOrd, Ord)]
pub struct Question {
    pub name: Name,
    pub qtype: u16,
    pub qclass: u16,
}

#[derive(Clone, Debug, PartialEq, Eq, Hash, PartialOrd, Ord)]
pub struct Msg {
    pub id: u16,
    pub flags: u16,
    pub q: Vec<Question>,
    pub an: Vec<Rec>,
    pub ns: Vec<Rec>,
    pub ar: Vec<Rec>,
}

impl Msg {
    pub fn sec(&self, s: Sec) -> &Vec<Rec> {
        match s {
            Sec::Answer => &self.an,
            Sec::Authority => &self.ns,
            Sec::Additional => &self.ar,
            Sec::Question => panic!("question has no Rec list"),
        }
    }
    pub fn sec_mut(&mut self, s: Sec) -> &mut Vec<Rec> {
        match s {
            Sec::Answer => &mut self.an,
            Sec::Authority => &mut self.ns,
            Sec::Additional => &mut self.ar,
            Sec::Question => panic!("question has no Rec list"),
        }
    }
    pub fn all_recs(&self) -> impl Iterator<Item = &Rec> {
        self.an.iter().chain(self.ns.iter()).chain(self.ar.iter())
    }
    /// copy with every name lower-cased (for "equal up to ASCII case")
    pub fn folded(&self) -> Msg {
        let mut m = self.clone();
        for q in m.q.iter_mut() {
            q.name.make_ascii_lowercase();
        }
        for s in [Sec::Answer, Sec::Authority, Sec::Additional] {
            for r in m.sec_mut(s).iter_mut() {
                r.owner.make_ascii_lowercase();
                match &mut r.rdata {
                    Rdata::Name(n) => n.make_ascii_lowercase(),
                    Rdata::Mx(_, n) => n.make_ascii_lowercase(),
                    Rdata::Soa(a, b, _) => {
                        a.make_ascii_lowercase();
                        b.make_ascii_lowercase()
                    }
                    Rdata::Opaque(_) => {}
                }
            }
        }
        m
    }
}

#[derive(Clone, Debug, PartialEq, Eq)]
pub struct RecSpan {
    pub sec: Sec,
    pub start: usize,
    pub name_end: usize,
    pub end: usize,
}

#[derive(Clone, Debug, PartialEq, Eq)]
pub struct Decoded {
    pub msg: Msg,
    pub qspan: Option<RecSpan>,
    pub spans: Vec<RecSpan>, // an, ns, ar in order
    pub end: usize,          // offset after the last record
    pub pointer_free: bool,  // no pointer in any name the decoder understands
    pub max_chain: usize,    // longest pointer chain of any name
}

#[derive(Clone, Debug, PartialEq, Eq)]
pub enum DecodeErr {
    Short(&'static str, usize),
    NameLoop(usize),
    NameOob(usize),
}

/// Lenient name expansion: follows any pointer, bounded hops, no policy.
pub fn expand_lenient(p: &[u8], s: usize) -> Result<(Name, usize, usize), DecodeErr> {
    let mut o = s;
    let mut out = Vec::new();
    let mut end = None;
    let mut hops = 0usize;
    loop {
        if o >= p.len() {
            return Err(DecodeErr::NameOob(s));
        }
        let b = p[o];
        if b & 0xc0 == 0xc0 {
            if o + 1 >= p.len() {
                return Err(DecodeErr::NameOob(s));
            }
            hops += 1;
            if hops > 300 {
                return Err(DecodeErr::NameLoop(s));
            }
            if end.is_none() {
                end = Some(o + 2);
            }
            o = (((b & 0x3f) as usize) << 8) | p[o + 1] as usize;
            continue;
        }
        let l = b as usize; // 0x40..0xbf are copied as (wrong) label lengths: no policy here
        if o + 1 + l > p.len() {
            return Err(DecodeErr::NameOob(s));
        }
        out.extend_from_slice(&p[o..o + 1 + l]);
        if out.len() > 70000 {
            return Err(DecodeErr::NameLoop(s));
        }
        o += 1 + l;
        if l == 0 {
            break;
        }
    }
    Ok((out, end.unwrap_or(o), hops))
}

pub fn is_name_type(t: u16) -> bool {
    t == T_NS || t == T_CNAME || t == T_PTR
}

/// Lenient decoder: reads the header counts and walks records; understands the names in
/// NS/CNAME/PTR/MX/SOA data; everything else (incl. OPT and DNAME) is opaque.
pub fn decode(p: &[u8]) -> Result<Decoded, DecodeErr> {
    if p.len() < 12 {
        return Err(DecodeErr::Short("header", 0));
    }
    let mut msg = Msg {
        id: be16(p, 0),
        flags: be16(p, 2),
        q: vec![],
        an: vec![],
        ns: vec![],
        ar: vec![],
    };
    let counts = [be16(p, 4), be16(p, 6), be16(p, 8), be16(p, 10)];
    let mut o = 12usize;
    let mut qspan = None;
    let mut pointer_free = true;
    let mut max_chain = 0usize;
    for _ in 0..counts[0] {
        let (name, e, hops) = expand_lenient(p, o)?;
        if hops > 0 {
            pointer_free = false;
        }
        max_chain = max_chain.max(hops);
        if e + 4 > p.len() {
            return Err(DecodeErr::Short("question fixed", e));
        }
        msg.q.push(Question {
            name,
            qtype: be16(p, e),
            qclass: be16(p, e + 2),
        });
        qspan = Some(RecSpan {
            sec: Sec::Question,
            start: o,
            name_end: e,
            end: e + 4,
        });
        o = e + 4;
    }
    let mut spans = vec![];
    for (i, sec) in [Sec::Answer, Sec::Authority, Sec::Additional].iter().enumerate() {
        for _ in 0..counts[i + 1] {
            let (owner, e, hops) = expand_lenient(p, o)?;
            if hops > 0 {
                pointer_free = false;
            }
            max_chain = max_chain.max(hops);
            if e + 10 > p.len() {
                return Err(DecodeErr::Short("record fixed", e));
            }
            let rtype = be16(p, e);
            let class = be16(p, e + 2);
            let ttl = be32(p, e + 4);
            let rdlen = be16(p, e + 8) as usize;
            let rd = e + 10;
            if rd + rdlen > p.len() {
                return Err(DecodeErr::Short("rdata", rd));
            }
            let mut note = |h: usize| {
                if h > 0 {
                    pointer_free = false;
                }
                max_chain = max_chain.max(h);
            };
            let rdata = if is_name_type(rtype) {
                let (n, _, h) = expand_lenient(p, rd)?;
                note(h);
                Rdata::Name(n)
            } else if rtype == T_MX {
                if rdlen < 2 {
                    return Err(DecodeErr::Short("mx", rd));
                }
                let (n, _, h) = expand_lenient(p, rd + 2)?;
                note(h);
                Rdata::Mx(be16(p, rd), n)
            } else if rtype == T_SOA {
                let (n1, e1, h1) = expand_lenient(p, rd)?;
                note(h1);
                let (n2, e2, h2) = expand_lenient(p, e1)?;
                note(h2);
                if e2 + 20 > p.len() {
                    return Err(DecodeErr::Short("soa", e2));
                }
                let mut f = [0u8; 20];
                f.copy_from_slice(&p[e2..e2 + 20]);
                Rdata::Soa(n1, n2, f)
            } else {
                Rdata::Opaque(p[rd..rd + rdlen].to_vec())
            };
            msg.sec_mut(*sec).push(Rec {
                owner,
                rtype,
                class,
                ttl,
                rdata,
            });
            spans.push(RecSpan {
                sec: *sec,
                start: o,
                name_end: e,
                end: rd + rdlen,
            });
            o = rd + rdlen;
        }
    }
    Ok(Decoded {
        msg,
        qspan,
        spans,
        end: o,
        pointer_free,
        max_chain,
    })
}

/// What a correct ParsedPacket holds for these (well-formed-or-questionless) bytes.
#[derive(Clone, Debug, PartialEq, Eq)]
pub struct View {
    pub offset_question: Option<usize>,
    pub offset_answers: Option<usize>,
    pub offset_nameservers: Option<usize>,
    pub offset_additional: Option<usize>,
    pub offset_edns: Option<usize>,
    pub edns_count: u16,
    pub ext_rcode: Option<u8>,
    pub edns_version: Option<u8>,
    pub ext_flags: Option<u16>,
    pub max_payload: usize,
}

pub fn view(p: &[u8], d: &Decoded) -> View {
    let mut v = View {
        offset_question: d.qspan.as_ref().map(|s| s.start),
        offset_answers: None,
        offset_nameservers: None,
        offset_additional: None,
        offset_edns: None,
        edns_count: 0,
        ext_rcode: None,
        edns_version: None,
        ext_flags: None,
        max_payload: 512,
    };
    let mut idx = 0usize;
    for (sec, recs) in [
        (Sec::Answer, &d.msg.an),
        (Sec::Authority, &d.msg.ns),
        (Sec::Additional, &d.msg.ar),
    ] {
        for (i, r) in recs.iter().enumerate() {
            let sp = &d.spans[idx];
            if i == 0 {
                match sec {
                    Sec::Answer => v.offset_answers = Some(sp.start),
                    Sec::Authority => v.offset_nameservers = Some(sp.start),
                    Sec::Additional => v.offset_additional = Some(sp.start),
                    _ => {}
                }
            }
            if r.rtype == T_OPT && sec == Sec::Additional && v.offset_edns.is_none() {
                let e = sp.name_end;
                v.offset_edns = Some(e + 10);
                v.max_payload = be16(p, e + 2) as usize;
                v.ext_rcode = Some(p[e + 4]);
                v.edns_version = Some(p[e + 5]);
                v.ext_flags = Some(be16(p, e + 6));
                if let Rdata::Opaque(b) = &r.rdata {
                    v.edns_count = opt_options(b).map(|o| o.len()).unwrap_or(0) as u16;
                }
            }
            idx += 1;
        }
    }
    v
}

/// Splits OPT data into (code, data) options; None if they do not tile exactly.
pub fn opt_options(b: &[u8]) -> Option<Vec<(u16, Vec<u8>)>> {
    let mut o = 0;
    let mut out = vec![];
    while o < b.len() {
        if o + 4 > b.len() {
            return None;
        }
        let l = be16(b, o + 2) as usize;
        if o + 4 + l > b.len() {
            return None;
        }
        out.push((be16(b, o), b[o + 4..o + 4 + l].to_vec()));
        o += 4 + l;
    }
    Some(out)
}

// ---------------------------------------------------------------------------------------------
// names

/// builds a wire name from labels
pub fn name_from_labels(labels: &[&[u8]]) -> Name {
    let mut n = vec![];
    for l in labels {
        assert!(l.len() <= 63 && !l.is_empty());
        n.push(l.len() as u8);
        n.extend_from_slice(l);
    }
    n.push(0);
    n
}

/// "b.a" -> wire name; "" or "." -> root
pub fn nm(s: &str) -> Name {
    let s = s.trim_end_matches('.');
    if s.is_empty() {
        return vec![0];
    }
    let labels: Vec<&[u8]> = s.split('.').map(|l| l.as_bytes()).collect();
    name_from_labels(&labels)
}

pub fn labels_of(n: &[u8]) -> Vec<&[u8]> {
    let mut o = 0;
    let mut out = vec![];
    while o < n.len() && n[o] != 0 {
        let l = n[o] as usize;
        out.push(&n[o + 1..o + 1 + l]);
        o += 1 + l;
    }
    out
}

/// offsets (inside the expanded name) at which each suffix starts, incl. the root's
pub fn suffix_offsets(n: &[u8]) -> Vec<usize> {
    let mut o = 0;
    let mut out = vec![];
    loop {
        out.push(o);
        if o >= n.len() || n[o] == 0 {
            break;
        }
        o += 1 + n[o] as usize;
    }
    out
}

/// lower-cased dotted presentation as the library's `name()` defines it: labels joined by '.',
/// root = empty, a literal '.' inside a label written as \046, nothing else escaped.
pub fn dotted_lower(n: &[u8]) -> Vec<u8> {
    let mut out = vec![];
    for (i, l) in labels_of(n).iter().enumerate() {
        if i > 0 {
            out.push(b'.');
        }
        for &c in l.iter() {
            if c == b'.' {
                out.extend_from_slice(b"\\046");
            } else {
                out.push(c.to_ascii_lowercase());
            }
        }
    }
    out
}

pub fn dotted(n: &[u8]) -> String {
    let v = dotted_lower(n);
    if v.is_empty() {
        ".".to_string()
    } else {
        String::from_utf8_lossy(&v).to_string()
    }
}

// ---------------------------------------------------------------------------------------------
// encoder

#[derive(Clone, Copy, Debug, PartialEq, Eq, Hash)]
pub enum Strategy {
    /// no pointers at all
    Plain,
    /// longest known suffix, earliest occurrence
    Max,
    /// longest known suffix, latest occurrence
    Latest,
    /// compress only suffixes of at most j labels
    TailOnly(usize),
    /// whole-name repeats become a pointer to the previous occurrence, which may itself be
    /// a bare pointer: builds pointer chains
    Chain,
    /// only owner names are compressed (rdata names literal)
    OwnersOnly,
    /// only rdata names are compressed
    RdataOnly,
}

pub const ALL_STRATEGIES: [Strategy; 8] = [
    Strategy::Plain,
    Strategy::Max,
    Strategy::Latest,
    Strategy::TailOnly(1),
    Strategy::TailOnly(2),
    Strategy::Chain,
    Strategy::OwnersOnly,
    Strategy::RdataOnly,
];

struct Enc {
    out: Vec<u8>,
    // (suffix bytes (expanded, exact case), offset in out, labels in suffix)
    known: Vec<(Vec<u8>, usize)>,
    // whole names written (for Chain): name -> latest offset where an encoding of it starts
    whole: Vec<(Vec<u8>, usize)>,
    strat: Strategy,
}

fn label_count(n: &[u8]) -> usize {
    labels_of(n).len()
}

impl Enc {
    fn put_name(&mut self, n: &[u8], in_rdata: bool) {
        let start = self.out.len();
        let allowed = match self.strat {
            Strategy::Plain => false,
            Strategy::OwnersOnly => !in_rdata,
            Strategy::RdataOnly => in_rdata,
            _ => true,
        };
        if n == [0] || !allowed {
            self.put_literal(n, 0, n.len(), start < 0x4000);
            if n != [0] {
                self.whole.push((n.to_vec(), start));
            }
            return;
        }
        if self.strat == Strategy::Chain {
            if let Some((_, off)) = self.whole.iter().rev().find(|(w, o)| w == n && *o < 0x4000) {
                let off = *off;
                self.out.push(0xc0 | (off >> 8) as u8);
                self.out.push(off as u8);
                self.whole.push((n.to_vec(), start));
                return;
            }
        }
        let sufs = suffix_offsets(n);
        // find the first (longest) suffix that is known
        let mut cut = None;
        for &so in sufs.iter() {
            let suf = &n[so..];
            if suf == [0] {
                break;
            }
            if let Strategy::TailOnly(j) = self.strat {
                if label_count(suf) > j {
                    continue;
                }
            }
            let found = match self.strat {
                Strategy::Latest => self.known.iter().rev().find(|(k, _)| k == suf),
                _ => self.known.iter().find(|(k, _)| k == suf),
            };
            if let Some((_, off)) = found {
                cut = Some((so, *off));
                break;
            }
        }
        match cut {
            Some((so, off)) => {
                self.put_literal(n, 0, so, true);
                self.out.push(0xc0 | (off >> 8) as u8);
                self.out.push(off as u8);
            }
            None => self.put_literal(n, 0, n.len(), true),
        }
        self.whole.push((n.to_vec(), start));
    }

    /// writes n[from..to] literally and registers each suffix start written
    fn put_literal(&mut self, n: &[u8], from: usize, to: usize, register: bool) {
        let base = self.out.len();
        if register {
            let mut o = from;
            while o < to && n[o] != 0 {
                let off = base + (o - from);
                if off < 0x4000 {
                    self.known.push((n[o..].to_vec(), off));
                }
                o += 1 + n[o] as usize;
            }
        }
        self.out.extend_from_slice(&n[from..to]);
    }

    fn put_rec(&mut self, r: &Rec) {
        self.put_name(&r.owner, false);
        let fixed = self.out.len();
        self.out.extend_from_slice(&r.rtype.to_be_bytes());
        self.out.extend_from_slice(&r.class.to_be_bytes());
        self.out.extend_from_slice(&r.ttl.to_be_bytes());
        self.out.extend_from_slice(&[0, 0]);
        let rd = self.out.len();
        match &r.rdata {
            Rdata::Name(n) => self.put_name(n, true),
            Rdata::Mx(pf, n) => {
                self.out.extend_from_slice(&pf.to_be_bytes());
                self.put_name(n, true)
            }
            Rdata::Soa(a, b, f) => {
                self.put_name(a, true);
                self.put_name(b, true);
                self.out.extend_from_slice(f);
            }
            Rdata::Opaque(b) => self.out.extend_from_slice(b),
        }
        let rdlen = self.out.len() - rd;
        assert!(rdlen <= 0xffff);
        self.out[fixed + 8] = (rdlen >> 8) as u8;
        self.out[fixed + 9] = rdlen as u8;
    }
}

pub fn encode(m: &Msg, strat: Strategy) -> Vec<u8> {
    let mut e = Enc {
        out: Vec::with_capacity(512),
        known: vec![],
        whole: vec![],
        strat,
    };
    e.out.extend_from_slice(&m.id.to_be_bytes());
    e.out.extend_from_slice(&m.flags.to_be_bytes());
    e.out.extend_from_slice(&(m.q.len() as u16).to_be_bytes());
    e.out.extend_from_slice(&(m.an.len() as u16).to_be_bytes());
    e.out.extend_from_slice(&(m.ns.len() as u16).to_be_bytes());
    e.out.extend_from_slice(&(m.ar.len() as u16).to_be_bytes());
    for q in &m.q {
        e.put_name(&q.name, false);
        e.out.extend_from_slice(&q.qtype.to_be_bytes());
        e.out.extend_from_slice(&q.qclass.to_be_bytes());
    }
    for r in m.an.iter().chain(m.ns.iter()).chain(m.ar.iter()) {
        e.put_rec(r);
    }
    e.out
}

/// wire form of a single record, names literal (what `RR::from_string` must produce)
pub fn encode_rec_plain(r: &Rec) -> Vec<u8> {
    let mut e = Enc {
        out: vec![],
        known: vec![],
        whole: vec![],
        strat: Strategy::Plain,
    };
    e.put_rec(r);
    e.out
}

pub fn opt_rec(payload: u16, ext_rcode: u8, version: u8, ext_flags: u16, options: &[(u16, Vec<u8>)]) -> Rec {
    let mut rd = vec![];
    for (c, d) in options {
        rd.extend_from_slice(&c.to_be_bytes());
        rd.extend_from_slice(&(d.len() as u16).to_be_bytes());
        rd.extend_from_slice(d);
    }
    Rec {
        owner: vec![0],
        rtype: T_OPT,
        class: payload,
        ttl: ((ext_rcode as u32) << 24) | ((version as u32) << 16) | ext_flags as u32,
        rdata: Rdata::Opaque(rd),
    }
}

pub fn hex(b: &[u8]) -> String {
    let mut s = String::with_capacity(b.len() * 2);
    for x in b {
        s.push_str(&format!("{:02x}", x));
    }
    s
}

pub fn unhex(s: &str) -> Vec<u8> {
    let s: Vec<u8> = s.bytes().filter(|c| c.is_ascii_hexdigit()).collect();
    s.chunks(2)
        .map(|c| u8::from_str_radix(std::str::from_utf8(c).unwrap(), 16).unwrap())
        .collect()
}

/// short human description of a message (for samples in evidence files)
pub fn describe(m: &Msg) -> String {
    let mut s = format!("id={:04x} fl={:04x}", m.id, m.flags);
    for q in &m.q {
        s.push_str(&format!(" Q[{} t{}]", dotted(&q.name), q.qtype));
    }
    for (tag, recs) in [("AN", &m.an), ("NS", &m.ns), ("AR", &m.ar)] {
        for r in recs.iter() {
            let rd = match &r.rdata {
                Rdata::Name(n) => dotted(n),
                Rdata::Mx(p, n) => format!("{} {}", p, dotted(n)),
                Rdata::Soa(a, b, _) => format!("{} {}", dotted(a), dotted(b)),
                Rdata::Opaque(b) => format!("#{}", b.len()),
            };
            s.push_str(&format!(" {}[{} t{} {}]", tag, dotted(&r.owner), r.rtype, rd));
        }
    }
    s
}

/// buckets record types for outcome-class strings: the types the library treats specially, else 65535
pub fn type_bucket(t: u16) -> u16 {
    match t {
        1 | 2 | 5 | 6 | 12 | 15 | 16 | 28 | 39 | 41 | 43 | 99 => t,
        _ => 65535,
    }
}
