//! Reference model for the dnssector verification harness. No dependency on dnssector.
pub mod gen;
pub mod msg;
pub mod ops;
pub mod text;
pub mod wire;
