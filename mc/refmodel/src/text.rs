//! Typed model of the record-text grammar (C13) and of presentation-format host names (C14).
//! Texts are produced from typed field values, so the expected wire form never depends on parsing.

use crate::msg::*;
use crate::wire::*;

#[derive(Clone, Debug)]
pub enum Kind {
    A([u8; 4]),
    Aaaa(&'static str, [u8; 16]),
    Ns(String),
    Cname(String),
    Ptr(String),
    /// (raw bytes, quoted-and-escaped text without the quotes)
    Txt(Vec<u8>, String),
    Mx(u16, String),
    Soa(String, String, [u32; 5]),
    Ds(u16, u8, u8, String),
}

#[derive(Clone, Debug)]
pub struct TextRec {
    pub owner: String,
    pub ttl: u32,
    pub kind: Kind,
}

/// labels of a presentation name (no escapes): split at dots, optional trailing dot; "." = root
pub fn name_to_wire(s: &str) -> Name {
    let t = s.strip_suffix('.').unwrap_or(s);
    let mut n = vec![];
    if !t.is_empty() {
        for l in t.split('.') {
            n.push(l.len() as u8);
            n.extend_from_slice(l.as_bytes());
        }
    }
    n.push(0);
    n
}

pub fn hex_bytes(h: &str) -> Vec<u8> {
    (0..h.len() / 2).map(|i| u8::from_str_radix(&h[2 * i..2 * i + 2], 16).unwrap()).collect()
}

impl TextRec {
    pub fn type_name(&self) -> &'static str {
        match self.kind {
            Kind::A(_) => "A",
            Kind::Aaaa(..) => "AAAA",
            Kind::Ns(_) => "NS",
            Kind::Cname(_) => "CNAME",
            Kind::Ptr(_) => "PTR",
            Kind::Txt(..) => "TXT",
            Kind::Mx(..) => "MX",
            Kind::Soa(..) => "SOA",
            Kind::Ds(..) => "DS",
        }
    }

    pub fn to_rec(&self) -> Rec {
        let owner = name_to_wire(&self.owner);
        let (rtype, rdata) = match &self.kind {
            Kind::A(ip) => (T_A, Rdata::Opaque(ip.to_vec())),
            Kind::Aaaa(_, ip) => (T_AAAA, Rdata::Opaque(ip.to_vec())),
            Kind::Ns(n) => (T_NS, Rdata::Name(name_to_wire(n))),
            Kind::Cname(n) => (T_CNAME, Rdata::Name(name_to_wire(n))),
            Kind::Ptr(n) => (T_PTR, Rdata::Name(name_to_wire(n))),
            Kind::Txt(raw, _) => {
                let mut rd = vec![];
                for c in raw.chunks(255) {
                    rd.push(c.len() as u8);
                    rd.extend_from_slice(c);
                }
                (T_TXT, Rdata::Opaque(rd))
            }
            Kind::Mx(p, n) => (T_MX, Rdata::Mx(*p, name_to_wire(n))),
            Kind::Soa(a, b, nums) => {
                let mut f = [0u8; 20];
                for (i, v) in nums.iter().enumerate() {
                    f[4 * i..4 * i + 4].copy_from_slice(&v.to_be_bytes());
                }
                (T_SOA, Rdata::Soa(name_to_wire(a), name_to_wire(b), f))
            }
            Kind::Ds(k, a, d, h) => {
                let mut rd = k.to_be_bytes().to_vec();
                rd.push(*a);
                rd.push(*d);
                rd.extend(hex_bytes(h));
                (T_DS, Rdata::Opaque(rd))
            }
        };
        Rec { owner, rtype, class: 1, ttl: self.ttl, rdata }
    }

    /// tokens in order: owner, ttl, class keyword, type keyword, rdata tokens
    pub fn tokens(&self, kw_case: usize) -> Vec<String> {
        let cased = |s: &str| -> String {
            match kw_case % 3 {
                0 => s.to_string(),
                1 => s.to_ascii_lowercase(),
                _ => s.chars().enumerate().map(|(i, c)| if i % 2 == 0 { c.to_ascii_lowercase() } else { c.to_ascii_uppercase() }).collect(),
            }
        };
        let mut t = vec![self.owner.clone(), self.ttl.to_string(), cased("IN"), cased(self.type_name())];
        match &self.kind {
            Kind::A(ip) => t.push(format!("{}.{}.{}.{}", ip[0], ip[1], ip[2], ip[3])),
            Kind::Aaaa(s, _) => t.push(s.to_string()),
            Kind::Ns(n) | Kind::Cname(n) | Kind::Ptr(n) => t.push(n.clone()),
            Kind::Txt(_, q) => t.push(format!("\"{}\"", q)),
            Kind::Mx(p, n) => {
                t.push(p.to_string());
                t.push(n.clone());
            }
            Kind::Soa(a, b, nums) => {
                t.push(a.clone());
                t.push(b.clone());
                t.push("(".into());
                for v in nums {
                    t.push(v.to_string());
                }
                t.push(")".into());
            }
            Kind::Ds(k, a, d, h) => {
                t.push(k.to_string());
                t.push(a.to_string());
                t.push(d.to_string());
                t.push(h.clone());
            }
        }
        t
    }
}

pub const WS_VARIANTS: usize = 5;

pub fn render(tokens: &[String], ws: usize) -> String {
    let (lead, sep, trail) = match ws % WS_VARIANTS {
        0 => ("", " ", ""),
        1 => ("", "\t", ""),
        2 => ("  ", "   ", " "),
        3 => ("\t", " \t ", "\t "),
        _ => ("", "  ", "  "),
    };
    format!("{}{}{}", lead, tokens.join(sep), trail)
}

pub fn label_of(len: usize, c: char) -> String {
    std::iter::repeat(c).take(len).collect()
}

/// a name whose wire length is exactly `wire` (labels of at most 62 bytes)
pub fn name_with_wire_len(wire: usize) -> String {
    // wire = sum(len+1) + 1
    let mut left = wire - 1;
    let mut labels = vec![];
    while left > 0 {
        let take = left.min(63); // label of take-1 bytes
        if take < 2 {
            // fold the remaining byte into the previous label when it fits, else give up exactness
            if let Some(l) = labels.last_mut() {
                let l: &mut String = l;
                l.push('m');
            }
            left -= 1;
            continue;
        }
        labels.push(label_of(take - 1, 'k'));
        left -= take;
    }
    labels.join(".")
}

pub fn owner_menu() -> Vec<String> {
    vec![
        "x".into(),
        ".".into(),
        "x.".into(),
        "b.a".into(),
        "B.a.".into(),
        "_srv._tcp.a".into(),
        "a-b.c-".into(),
        "1a.2b".into(),
        label_of(62, 'L'),
        format!("{}.{}", label_of(62, 'p'), label_of(61, 'q')),
        name_with_wire_len(253),
        name_with_wire_len(200),
    ]
}

pub fn txt_menu() -> Vec<(Vec<u8>, String)> {
    let plain = |s: &str| (s.as_bytes().to_vec(), s.to_string());
    let mut v = vec![plain("hi"), plain("a b  c"), plain("semi;colon(paren)"), plain("x")];
    v.push((vec![65, 0, 255, 34, 92], "\\065\\000\\255\\034\\092".to_string()));
    v.push((vec![b'a', 200, b'z'], "a\\200z".to_string()));
    // 1100 bytes written entirely as decimal escapes: 4400 characters of text for a record of about 1.1 KB
    {
        let raw: Vec<u8> = (0..1100usize).map(|i| (i % 251) as u8).collect();
        let q: String = raw.iter().map(|b| format!("\\{:03}", b)).collect();
        v.push((raw, q));
    }
    // a decimal escape directly followed by literal digits, and directly by another escape
    v.push((vec![65, b'1'], "\\0651".to_string()));
    v.push((vec![1, b'1', b'2', b'3'], "\\001123".to_string()));
    v.push((vec![255, b'2', b'5', b'5'], "\\255255".to_string()));
    v.push((vec![b'9', 48, b'9', 0, b'0'], "9\\0489\\0000".to_string()));
    for n in [254usize, 255, 256, 510, 511, 3825] {
        let s = label_of(n, 't');
        v.push((s.as_bytes().to_vec(), s));
    }
    v
}

/// The grammar-derived valid texts: typed records with boundary values.
pub fn valid_records(level: usize) -> Vec<TextRec> {
    let owners = owner_menu();
    let names: Vec<String> = if level == 0 { owners[..7].to_vec() } else { owners.clone() };
    let ttls: Vec<u32> = vec![0, 1, 4294967295, 3600];
    let mut v = vec![];
    let mut i = 0usize;
    let mut pick_ttl = || {
        i += 1;
        ttls[i % ttls.len()]
    };
    for o in &owners {
        for ip in [[0u8, 0, 0, 0], [255, 255, 255, 255], [1, 2, 3, 4], [192, 0, 2, 200]] {
            v.push(TextRec { owner: o.clone(), ttl: pick_ttl(), kind: Kind::A(ip) });
        }
        let mut one = [0u8; 16];
        one[15] = 1;
        let mut db8 = [0u8; 16];
        db8[0] = 0x20;
        db8[1] = 0x01;
        db8[2] = 0x0d;
        db8[3] = 0xb8;
        db8[15] = 1;
        let seq = [0, 1, 0, 2, 0, 3, 0, 4, 0, 5, 0, 6, 0, 7, 0, 8];
        for (s, ip) in [("::", [0u8; 16]), ("::1", one), ("2001:db8::1", db8), ("2001:DB8::1", db8), ("ffff:ffff:ffff:ffff:ffff:ffff:ffff:ffff", [255u8; 16]), ("1:2:3:4:5:6:7:8", seq), ("0001:0002:0003:0004:0005:0006:0007:0008", seq), ("1::8", [0, 1, 0, 0, 0, 0, 0, 0, 0, 0, 0, 0, 0, 0, 0, 8]), ("1:2:3:4:5:6:7::", [0, 1, 0, 2, 0, 3, 0, 4, 0, 5, 0, 6, 0, 7, 0, 0]), ("::2:3:4:5:6:7:8", [0, 0, 0, 2, 0, 3, 0, 4, 0, 5, 0, 6, 0, 7, 0, 8]), ("::ffff:102:304", [0, 0, 0, 0, 0, 0, 0, 0, 0, 0, 255, 255, 1, 2, 3, 4]), ("fe80::", [0xfe, 0x80, 0, 0, 0, 0, 0, 0, 0, 0, 0, 0, 0, 0, 0, 0]), ("ABCD:EF01::A", [0xab, 0xcd, 0xef, 0x01, 0, 0, 0, 0, 0, 0, 0, 0, 0, 0, 0, 0x0a])] {
            v.push(TextRec { owner: o.clone(), ttl: pick_ttl(), kind: Kind::Aaaa(s, ip) });
        }
        for n in &names {
            v.push(TextRec { owner: o.clone(), ttl: pick_ttl(), kind: Kind::Ns(n.clone()) });
            v.push(TextRec { owner: o.clone(), ttl: pick_ttl(), kind: Kind::Cname(n.clone()) });
            v.push(TextRec { owner: o.clone(), ttl: pick_ttl(), kind: Kind::Ptr(n.clone()) });
            for p in [0u16, 10, 65535] {
                v.push(TextRec { owner: o.clone(), ttl: pick_ttl(), kind: Kind::Mx(p, n.clone()) });
            }
        }
        for (raw, q) in txt_menu() {
            v.push(TextRec { owner: o.clone(), ttl: pick_ttl(), kind: Kind::Txt(raw, q) });
        }
        for (k, a, d) in [(0u16, 0u8, 0u8), (65535, 255, 255), (12345, 8, 2)] {
            for h in ["00", "abCDef01", "0123456789abcdef0123456789ABCDEF0123456789abcdef0123456789abcdef"] {
                v.push(TextRec { owner: o.clone(), ttl: pick_ttl(), kind: Kind::Ds(k, a, d, h.to_string()) });
            }
        }
        // digests of 1..66 bytes and of 96, 128, 255, 256, 1000 bytes (SHA-384 / SHA-512 and beyond)
        for bytes in (1..=66usize).chain([96, 128, 255, 256, 1000]) {
            if bytes > 66 || o == &owners[0] {
                let h: String = (0..bytes).map(|i| format!("{:02x}", (i * 7 + 1) as u8)).collect();
                let h = if bytes % 2 == 0 { h.to_ascii_uppercase() } else { h };
                v.push(TextRec { owner: o.clone(), ttl: pick_ttl(), kind: Kind::Ds(4660, 13, 4, h) });
            }
        }
    }
    // SOA: two names x number vectors (includes two long names: the data exceeds 253 bytes while each name fits)
    let soa_names: Vec<String> = vec!["ns.a".into(), "admin.a.".into(), name_with_wire_len(200), name_with_wire_len(253), "x".into()];
    for o in owners.iter().take(4) {
        for a in &soa_names {
            for b in &soa_names {
                for nums in [[0u32; 5], [4294967295; 5], [1, 2, 3, 4, 5], [2024010101, 7200, 3600, 1209600, 300]] {
                    v.push(TextRec { owner: o.clone(), ttl: pick_ttl(), kind: Kind::Soa(a.clone(), b.clone(), nums) });
                }
            }
        }
    }
    v
}

/// Texts the statement says must be rejected, with the reason class.
pub fn must_reject_targeted() -> Vec<(String, &'static str)> {
    let mut v: Vec<(String, &'static str)> = vec![];
    let p = |s: &str, why: &'static str| (s.to_string(), why);
    // numbers out of range
    v.push(p("x 4294967296 IN A 1.2.3.4", "ttl out of range"));
    v.push(p("x 99999999999999999999 IN A 1.2.3.4", "ttl out of range"));
    v.push(p("x 1 IN MX 65536 m.a", "preference out of range"));
    v.push(p("x 1 IN DS 65536 1 1 00", "key tag out of range"));
    v.push(p("x 1 IN DS 1 256 1 00", "algorithm out of range"));
    v.push(p("x 1 IN DS 1 1 256 00", "digest type out of range"));
    v.push(p("x 1 IN SOA a b ( 4294967296 1 1 1 1 )", "serial out of range"));
    v.push(p("x 1 IN SOA a b ( 1 1 1 1 4294967296 )", "minimum out of range"));
    v.push(p("x 1 IN TXT \"\\256\"", "escape out of range"));
    v.push(p("x 1 IN TXT \"\\999\"", "escape out of range"));
    for big in ["4294967296", "4294967297", "4772185885", "5000000000", "8589934591", "8589934592", "9544371769", "9999999999", "42949672960", "99999999999", "18446744073709551615", "18446744073709551616", "340282366920938463463374607431768211456"] {
        v.push((format!("x {} IN A 1.2.3.4", big), "ttl out of range"));
        v.push((format!("x 1 IN SOA a b ( {} 1 1 1 1 )", big), "SOA number out of range"));
        v.push((format!("x 1 IN SOA a b ( 1 1 {} 1 1 )", big), "SOA number out of range"));
        v.push((format!("x 1 IN SOA a b ( 1 1 1 1 {} )", big), "SOA number out of range"));
    }
    for big in ["65536", "65537", "69999", "131071", "131072", "655360", "99999", "4294967296"] {
        v.push((format!("x 1 IN MX {} m.a", big), "preference out of range"));
        v.push((format!("x 1 IN DS {} 1 1 00", big), "key tag out of range"));
    }
    for big in ["256", "257", "300", "511", "512", "999", "2560", "65536"] {
        v.push((format!("x 1 IN DS 1 {} 1 00", big), "algorithm out of range"));
        v.push((format!("x 1 IN DS 1 1 {} 00", big), "digest type out of range"));
        v.push((format!("x 1 IN A 1.2.3.{}", big), "malformed IPv4 address"));
        v.push((format!("x 1 IN A {}.2.3.4", big), "malformed IPv4 address"));
    }
    // malformed addresses
    for a in ["1.2.3", "1.2.3.4.5", "256.1.1.1", "1.2.3.256", "1..2.3", "1.2.3.", ".1.2.3", "a.b.c.d", "1.2.3.4x"] {
        v.push((format!("x 1 IN A {}", a), "malformed IPv4 address"));
    }
    for a in [":::", "12345::", "g::1", "1:2:3:4:5:6:7", "1:2:3:4:5:6:7:8:9", "::1::", "1.2.3.4"] {
        v.push((format!("x 1 IN AAAA {}", a), "malformed IPv6 address"));
    }
    // unbalanced quotes
    for t in ["\"abc", "abc\"", "\"", "abc", "\"a\"b\""] {
        v.push((format!("x 1 IN TXT {}", t), "unbalanced quote"));
    }
    // digests
    for h in ["abc", "0", "zz", "0g", "12 34", "0x12"] {
        v.push((format!("x 1 IN DS 1 2 3 {}", h), "odd-length or non-hex digest"));
    }
    // missing / surplus fields
    for t in ["", " ", "x", "x 1", "x 1 IN", "x 1 IN A", "x IN A 1.2.3.4", "1 IN A 1.2.3.4", "x 1 A 1.2.3.4", "x 1 IN 1.2.3.4", "x 1 IN A 1.2.3.4 5", "x 1 IN MX 10", "x 1 IN MX m.a", "x 1 IN MX 10 m.a extra", "x 1 IN NS", "x 1 IN NS a b",
              "x 1 IN SOA a b ( 1 2 3 4 )", "x 1 IN SOA a b ( 1 2 3 4 5 6 )", "x 1 IN SOA a ( 1 2 3 4 5 )", "x 1 IN SOA a b 1 2 3 4 5", "x 1 IN SOA a b ( 1 2 3 4 5", "x 1 IN DS 1 2 3", "x 1 IN DS 1 2 00", "x 1 IN TXT", "x 1 IN TXT \"a\" \"b\"",
              "x 1 CH A 1.2.3.4", "x 1 IN OPT 0", "x 1 IN BOGUS 1"] {
        v.push((t.to_string(), "missing or surplus field / unsupported keyword"));
    }
    // near-misses of every type keyword (one more or one fewer character, doubled, prefixed), each followed by
    // data that is valid for the keyword it resembles, and near-misses of the class keyword
    let kws: [(&str, &str); 9] = [("A", "1.2.3.4"), ("AAAA", "::1"), ("NS", "n.a"), ("CNAME", "n.a"), ("PTR", "n.a"), ("TXT", "\"t\""), ("MX", "10 m.a"), ("SOA", "a b ( 1 2 3 4 5 )"), ("DS", "1 2 3 00")];
    let is_kw = |s: &str| kws.iter().any(|(k, _)| k.eq_ignore_ascii_case(s));
    for (k, data) in kws.iter() {
        let mut variants: Vec<String> = Vec::new();
        for c in ["X", "S", "A", "1", "-", "_", "."] {
            variants.push(format!("{}{}", k, c));
            variants.push(format!("{}{}", c, k));
        }
        variants.push(format!("{}{}", k, k));
        variants.push(format!("{}{}{}", k, k, k));
        variants.push(format!("{}XXXXXXXXXXXXXXXXXXXX", k));
        variants.push(k[..k.len() - 1].to_string());
        variants.push(k[1..].to_string());
        for var in variants {
            if var.is_empty() || is_kw(&var) {
                continue;
            }
            v.push((format!("x 1 IN {} {}", var, data), "near-miss of a type keyword"));
            v.push((format!("x 1 IN {} {}", var.to_ascii_lowercase(), data), "near-miss of a type keyword"));
        }
        for cls in ["INX", "I", "N", "INN", "ININ", "IN1", "1IN", "XIN", "IN-", "CS", "HS", "ANY"] {
            v.push((format!("x 1 {} {} {}", cls, k, data), "near-miss of the class keyword"));
        }
    }
    v
}

// ---------------------------------------------------------------------------------------------
// C14: presentation names

#[derive(Clone, Copy, Debug, PartialEq, Eq)]
pub enum NameClass {
    MustAccept,
    MustReject,
    Unspecified,
}

/// Classification of a presentation name per the statement of C14. `zone_wire` is the wire form of the
/// default zone that is appended when the name does not end in a dot.
pub fn classify_name(name: &[u8], zone_wire: Option<&[u8]>) -> NameClass {
    if name.is_empty() {
        return NameClass::Unspecified; // the statement does not say whether "" + zone denotes the zone or the root
    }
    if name == b"." {
        return NameClass::Unspecified;
    }
    let absolute = name.last() == Some(&b'.');
    let body = if absolute { &name[..name.len() - 1] } else { name };
    let labels: Vec<&[u8]> = body.split(|&c| c == b'.').collect();
    let empty_interior = labels.iter().any(|l| l.is_empty());
    let overlong_label = labels.iter().any(|l| l.len() > 63);
    let mut wire = labels.iter().map(|l| l.len() + 1).sum::<usize>();
    wire += match (absolute, zone_wire) {
        (false, Some(z)) => z.len(),
        _ => 1,
    };
    if empty_interior || overlong_label || wire > 255 {
        return NameClass::MustReject;
    }
    let ldhu = labels.iter().all(|l| l.iter().all(|&c| c.is_ascii_alphanumeric() || c == b'-' || c == b'_'));
    if ldhu && labels.iter().all(|l| l.len() <= 62) && wire <= 253 {
        return NameClass::MustAccept;
    }
    NameClass::Unspecified
}

/// expected wire form of an accepted presentation name
pub fn expected_wire(name: &[u8], zone_wire: Option<&[u8]>) -> Name {
    let absolute = name.last() == Some(&b'.');
    let body = if absolute { &name[..name.len() - 1] } else { name };
    let mut n = vec![];
    if !body.is_empty() {
        for l in body.split(|&c| c == b'.') {
            n.push(l.len() as u8);
            n.extend_from_slice(l);
        }
    }
    match (absolute, zone_wire, body.is_empty()) {
        (false, Some(z), false) => n.extend_from_slice(z),
        _ => n.push(0),
    }
    n
}
