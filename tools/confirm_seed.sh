#!/bin/bash
# tools/confirm_seed.sh <worktree> <name>  — confirms an independently produced seeded change in its scratch
# worktree (repository tests pass with it; its demonstration fails with it and passes without it) and files
# it under /verif/seeded/<name>/ .
set -u
WT="$1"; NAME="$2"; S="$WT/${3:-_seed}"; OUT="/verif/seeded/$NAME"
cd "$WT" || exit 2
git checkout -q -- src 2>/dev/null; rm -f tests/seed_demo.rs
git apply --check "$S/patch.diff" || { echo "patch does not apply"; exit 1; }
git apply "$S/patch.diff"
T1=$(cargo test --workspace --no-fail-fast --offline 2>&1 | grep -E "^test result" | awk '{p+=$4; f+=$6} END {print p" passed "f" failed"}')
cp "$S/seed_demo.rs" tests/seed_demo.rs
D1=$(cargo test --offline --test seed_demo 2>&1 | grep -E "^test result" | tail -1)
git checkout -q -- src
D0=$(cargo test --offline --test seed_demo 2>&1 | grep -E "^test result" | tail -1)
rm -f tests/seed_demo.rs
echo "repo tests with change: $T1"; echo "demo with change:    $D1"; echo "demo without change: $D0"
case "$T1" in "46 passed 0 failed") ;; *) echo "REJECT: repository tests"; exit 1;; esac
case "$D1" in *FAILED*) ;; *) echo "REJECT: demo does not fail with the change"; exit 1;; esac
case "$D0" in *"ok."*) ;; *) echo "REJECT: demo does not pass without the change"; exit 1;; esac
mkdir -p "$OUT"; cp "$S/patch.diff" "$S/seed_demo.rs" "$S/NOTES.md" "$OUT/"
echo "$T1|$D1|$D0" > "$OUT/confirm.txt"
echo "CONFIRMED -> $OUT"
