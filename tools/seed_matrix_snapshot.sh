#!/bin/bash
# To be run INSIDE a `vp run --with-repo` snapshot: binds the snapshot's harness to the private copy of the
# repository ($VP_RUN_REPO), then applies each seeded change named on the command line (directories under
# /verif/seeded) to that copy and runs the checks listed after the colon, e.g.
#   vp run --with-repo -- bash tools/seed_matrix_snapshot.sh C01-e:C01 C08-e:C08,C09
# /repo itself is never touched, so this can run while other work goes on.
set -u
sed -i "s#\"/repo\"#\"$VP_RUN_REPO\"#; s#/repo/src#$VP_RUN_REPO/src#" mc/props/Cargo.toml mc/props/build.rs
./check setup
for s in "$@"; do
  n=${s%%:*}; ids=${s##*:}
  echo "######## $n"
  git -C "$VP_RUN_REPO" apply /verif/seeded/$n/patch.diff || { echo "NOAPPLY"; continue; }
  for id in ${ids//,/ }; do
    timeout 900 ./check $id quick 2>&1 | grep -E "signature=|^$id |MACHINERY" | cut -c1-160 | sort | uniq -c | sort -rn | head -4
    echo "exit=${PIPESTATUS[0]} ($id)"
  done
  git -C "$VP_RUN_REPO" checkout -- .
done
