#!/usr/bin/env python3
"""Regenerates /verif/MANIFEST.json from the table below and validates it against the schema."""
import json, os, subprocess, sys
ROOT = os.path.dirname(os.path.dirname(os.path.abspath(__file__)))
BASE = json.load(open('/root/.vp/BASELINE.json'))
props = [json.loads(l) for l in open(os.path.join(ROOT, 'properties.jsonl'))]

# id -> (engine, technique, level text, level note, design ref)
CHECKS = {
 'C01': ('input-sweep', 'bounded-exhaustive input enumeration of the real parser and primitives (explicit enumeration of every input of each bounded family), panic/step-ceiling/byte-identity oracle',
         'Every byte string of the listed bounded families is executed through the real parser in-process (no sampling); totality is judged on each. This is the right level because the property is a universal claim over inputs and the parser is a pure function of its input.',
         'coverage is the enumerated families only (alphabets, lengths and seeds listed in the evidence); a panic is taken as the manifestation of any out-of-bounds access (the parser has no unsafe code); non-termination is detected by a ceiling on the hook step counter', '§5 C01'),
 'C02': ('input-sweep', 'bounded-exhaustive input enumeration, differential against an independent executable restatement of the wire policy (both directions)',
         'Every enumerated input is classified by an independently written recogniser of the stated policy and by the real parser; any disagreement in either direction is a violation. Per-clause coverage is measured and a clause that is never the first failing one fails the run.',
         'the restated policy (refmodel::wire::wf) is trusted as the specification; error kinds are not compared', '§2.1, §5 C02'),
 'C03': ('input-sweep', 'bounded-exhaustive enumeration of accepted packets (message universe x encoding strategies + accepted low-level packets), every iterator and accessor compared with an independent RFC 1035 decoder',
         'All messages of a bounded universe under every compression layout are walked with every iterator of the real library and each accessor is compared with the reference decoding; completeness (count, order, OPT skipped/included) and byte-immutability are checked on every packet.',
         'reference decoder trusted; universe bounds in the evidence', '§5 C03'),
 'C04': ('input-sweep', 'exhaustive enumeration of all 65536 header flag words, all 65536 extended-flag words and OPT field grids on base packets, getters compared with values decoded from the bytes',
         'Every flag word and every EDNS extended-flag word is explored on several base packets (including question names that run through the header), cold and memoised getter paths both compared with the reference decode.',
         'reference decoder trusted', '§5 C04'),
 'C05': ('input-sweep', 'bounded-exhaustive enumeration of accepted packets x every record boundary, decompression compared with the reference decoder (message equality, pointer-freeness, idempotence, offset carry)',
         'Every packet of the bounded universe under every pointer layout (chains up to 16, pointers into rdata, expansion beyond 64 KiB) is decompressed by the real code and the result is decoded independently.',
         'reference decoder and policy trusted', '§5 C05'),
 'C06': ('input-sweep', 'bounded-exhaustive enumeration of pointer-free accepted packets plus boundary families (nesting 1..20, dictionary wrap, suffix length, offset 16383), compression compared with the reference decoder',
         'Every pointer-free message of the bounded universe and of the dictionary/offset boundary families is compressed by the real code; validity, size, message equality up to case and round trip are checked on each.',
         'which suffix gets compressed is not compared; reference decoder trusted', '§5 C06'),
 'C07': ('input-sweep', 'bounded-exhaustive enumeration of accepted packets x (target, source, mode) menus, renamer output compared with an abstract rename on the decoded message',
         'Every packet of the bounded universe is renamed with every pair of a source/target menu (matches at each label depth, near-misses, case variants, growth past 255) in both modes through both entry points; output must decode to the abstractly renamed message or fail exactly when a name overflows.',
         'OPT position inside the additional section after renaming is not constrained; reference decoder trusted', '§5 C07'),
 'C08': ('bfs', 'explicit-state breadth-first search over API operation sequences on the real object (full-field state hashing), view oracle = reference decode of the object\'s own bytes and a fresh parse, on every reached state',
         'All operation sequences up to the completed depth (reported) over an alphabet covering every public mutation with succeeding and failing arguments are executed on the real ParsedPacket from many initial packets; in every reached state each view field is compared with the reference view of the bytes and with a fresh parse, and cursor continuity is checked after every in-cursor mutation.',
         'alphabet, initial states and depth are listed in the evidence; protocol-inconsistent histories are excluded (see assumptions)', '§4.2, §5 C08'),
 'C09': ('bfs', 'explicit-state breadth-first search over API operation sequences; effect oracle = abstract operation applied to the decoded message before the call must equal the decoded message after it',
         'Same state graph as C08; every transition is compared with a ten-line abstract operation on the decoded message, so any collateral change to another record, count, header field or the EDNS data is seen.',
         'abstract operations trusted', '§4.2, §5 C09'),
 'C10': ('bfs', 'explicit-state breadth-first search with failing arguments in the alphabet (fault enumeration over argument classes): expected-error transitions must fail, leave the decoded message unchanged and the view consistent; size limit checked from packets below, at and above 8192 bytes',
         'Same state graph as C08 including initial packets larger than the limit and 64 KiB-adjacent ones; every operation the abstract semantics says must fail is required to fail atomically.',
         'which error kind is returned is not compared', '§4.2, §5 C10'),
 'C11': ('input-sweep', 'stateless exhaustive exploration of all action strings over {delete, next} (prefix-closed, each re-executed from a fresh real cursor) for every section content up to size n, set-based oracle',
         'Every delete/next schedule of a walk, for every section size, section, OPT position and compression layout in the bounds, is executed on the real cursor and driven to the end of the walk; exact deletion, void second deletion, no resurrection, full coverage of survivors, final content/count and termination are checked on each.',
         'both cursor protocols after a deletion (restart or continue) are accepted', '§5 C11'),
 'C12': ('input-sweep', 'exhaustive enumeration: all 65536 header words x all 65536 16-bit arguments of set_flags, x all 256 arguments of set_opcode/set_rcode, x both set_response forms, bit-level reference per setter, whole packet compared; every ordered pair of setters and one setter on objects with 8 histories of settling calls enumerated likewise',
         'The full 2^32 space (header word x significant argument half) of set_flags and the full spaces of the other setters are enumerated on the real code; the ignored upper argument half is covered per bit and by seed-chosen samples, as the property itself states.',
         'none beyond the bit-level reference of each setter', '§5 C12'),
 'C13': ('input-sweep', 'bounded-exhaustive enumeration of a typed text grammar (valid texts with boundary values x casings x whitespace layouts), its token- and character-level damage closure, and every string over a 12-character alphabet up to length n after each type prefix; reference wire encoder',
         'Valid texts are generated from typed field values so the expected wire bytes never depend on parsing; must-reject classes of the statement are generated explicitly; all other strings are held to no-panic and well-formed-if-accepted.',
         'strings outside the must-accept / must-reject classes are only held to the last clause of the statement', '§5 C13'),
 'C14': ('input-sweep', 'exhaustive enumeration of all byte strings over a 10-symbol alphabet up to length n x default-zone choices plus boundary length grids, classified by the statement (must accept / must reject / unspecified), label-exact expected wire form, read-back through a real record',
         'Every short name over an alphabet containing the separator, case twins, digits, hyphen, underscore, backslash, a control byte and high bytes is converted by the real code, with and without default zone; accepted names are compared label by label and read back through set_raw_name/name().',
         'empty string and "." are outside the statement', '§5 C14'),
 'C18': ('input-sweep', 'exhaustive parameter grids of adversarial packet families (pointer chains incl. over-limit ones, over-long label runs, dense option lists) x doubling sizes, plus every short input; oracle on the hook step counter: absolute 64*len+4096 and bounded growth of steps/len under doubling',
         'The families are built to maximise pointer following and include structures beyond the current limits (so that removing a limit is observable); every member of every family at every size is parsed by the real code with the step counter armed.',
         'steps are counted where the hooks sit (name, record and option loops)', '§5 C18'),
 'C15': ('input-sweep', 'bounded-exhaustive enumeration of hook scripts (sequences of table calls incl. per-record callback programs, generated state-dependently) executed through a C interpreter compiled against the shipped header and through the native API from the same initial packets; transcript and final-object equality, canaries around every out-buffer, layout comparison, measured power of the entry-order check',
         'Every script up to the stated length over an alphabet covering every table entry is run on the real table from C and natively; equality of all return values, out-buffers, error descriptions and final objects is required, buffers are bracketed by canaries, and for each pair of same-typed entries the run measures that swapping them would be noticed.',
         'UB that changes no transcript, touches no canary and does not crash is not detected; preconditions of the table are respected by the script generator', '§5 C15'),
 'C16': ('interleave', 'stateless exploration of all interleavings of real OS threads under a baton scheduler: every schedule of fail/succeed/read scripts at table-call granularity, and every schedule with <=2 preemptions at the library\'s own yield points around the error store; threads with their own packet and threads sharing one packet; single-thread scripts of up to 4 steps',
         'The property is about a thread_local, so the threads are real; every interleaving of the scripts within the bounds is executed and each read is compared with that thread\'s own last failure. Schedules are replayed twice before any verdict.',
         'granularity = table calls + hook points; no claim about data races below it', '§4.3, §5 C16'),
 'C17': ('interleave', 'exhaustive pairs (thorough: triples) of calls on one thread against fresh-process baselines, plus stateless preemption-bounded exploration of interleavings of real threads at the library\'s yield points (per name emitted/copied/replaced, per record parsed); a free-running sampling pass over the same items is run in addition and is not part of the exhaustive claim',
         'Purity is checked over all ordered pairs of a corpus of calls (history dependence) and over all interleavings with at most 2 preemptions of concurrently running calls (schedule dependence), each result compared byte for byte with the result computed by a fresh process.',
         'granularity = hook points inside the library', '§4.3, §5 C17'),
}

def entry(pid):
    eng, tech, text, note, ref = CHECKS[pid]
    return {
        'property_id': pid,
        'quick_cmd': f'./check {pid} quick',
        'thorough_cmd': f'./check {pid} thorough',
        'evidence_file': f'evidence/{pid}.json',
        'replay_cmd_template': './check replay {path}',
        'engine': eng,
        'level_claimed': {'category': 'model_checking', 'text': text, 'design_ref': 'DESIGN.md ' + ref},
        'level_note': note,
        'technique': tech,
    }

hooks_commits = subprocess.run(['git', '-C', '/repo', 'log', '--format=%H', '--grep=verif_hooks'], capture_output=True, text=True).stdout.split()
manifest = {
    'version': 1,
    'setup_cmd': './check setup',
    'hooks': {
        'guard': 'cargo feature verif_hooks (off by default)',
        'enable': 'the harness depends on dnssector by path=/repo with features=["verif_hooks"]; ./check rebuilds it from the working tree on every invocation',
        'baseline_off_cmd': 'cd /repo && cargo test --workspace --no-fail-fast --offline',
        'source_commits': hooks_commits,
        'add_only': True,
    },
    'engines': [
        {'name': 'input-sweep', 'path': 'mc/props/src/engine.rs', 'serves_properties': [p for p in CHECKS if CHECKS[p][0] == 'input-sweep'],
         'kind_free_text': 'sharded exhaustive enumeration of bounded input families through the real code, reference model in lock-step, 16 worker subprocesses'},
        {'name': 'bfs', 'path': 'mc/props/src/bfs.rs', 'serves_properties': [p for p in CHECKS if CHECKS[p][0] == 'bfs'],
         'kind_free_text': 'explicit-state breadth-first search over operation sequences on the real ParsedPacket object with full-field state hashing'},
        {'name': 'interleave', 'path': 'mc/props/src/sched.rs', 'serves_properties': [p for p in CHECKS if CHECKS[p][0] == 'interleave'],
         'kind_free_text': 'stateless exploration of all interleavings (preemption-bounded) of real OS threads under a baton scheduler'},
    ],
    'checks': [entry(p['id']) for p in props if p['id'] in CHECKS],
    'not_applicable': [{'property_id': p['id'], 'reason': 'no check is registered for it in this commit (machinery still being built); not claimed'} for p in props if p['id'] not in CHECKS],
    'notes': 'All checks explore the real implementation (no separate formal model), so traces_validated_against_impl equals the number of executions. See DESIGN.md.',
}
manifest['engines'] = [e for e in manifest['engines'] if e['serves_properties']]
out = os.path.join(ROOT, 'MANIFEST.json')
json.dump(manifest, open(out, 'w'), indent=1)
open(out, 'a').write('\n')
try:
    import jsonschema
    jsonschema.validate(manifest, json.load(open('/root/.vp/MANIFEST.schema.json')))
    print('MANIFEST.json valid;', len(manifest['checks']), 'checks,', len(manifest['not_applicable']), 'not claimed')
except ImportError:
    print('jsonschema not available; wrote MANIFEST.json unvalidated')
