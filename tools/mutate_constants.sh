#!/bin/bash
# tools/mutate_constants.sh — my own mutants of src/constants.rs (each constant +1 / -1, each flag bit moved by
# one): applies one at a time to /repo's working tree, runs the repository tests, and if they still pass runs
# the quick checks in turn until one reports a violation. Writes selftest/CONSTANTS.md. /repo is always reverted.
set -u
cd /verif
OUT=selftest/CONSTANTS.md
CHECKS="C02 C01 C04 C03 C05 C06 C12 C13 C14 C18 C11 C07 C15 C09 C10 C08 C16 C17"
echo "# Mutants of src/constants.rs ($(date -u +%Y-%m-%dT%H:%MZ), /verif $(git rev-parse --short HEAD))" > $OUT
echo >> $OUT
echo "Each row: one constant changed; 'repo tests' = the repository's own 46 tests with the mutant; then the first quick check (in the order $CHECKS) that reports a violation." >> $OUT
echo >> $OUT
echo "| constant | mutant | repo tests | first check that reports it | signature |" >> $OUT
echo "|---|---|---|---|---|" >> $OUT
trap 'git -C /repo checkout -- . ; git -C /verif checkout -- evidence 2>/dev/null; find /verif/replays -name "*.json" -delete 2>/dev/null' EXIT
grep -nE "^pub const [A-Z_]+: (usize|u16|u32) = " /repo/src/constants.rs | while IFS= read -r line; do
  ln=${line%%:*}; rest=${line#*:}
  name=$(echo "$rest" | sed -E 's/pub const ([A-Z_]+):.*/\1/')
  val=$(echo "$rest" | sed -E 's/.*= (.*);/\1/')
  for delta in plus minus; do
    if echo "$val" | grep -qE '^[0-9]+$'; then
      if [ $delta = plus ]; then new=$((val+1)); else [ "$val" -gt 0 ] || continue; new=$((val-1)); fi
    elif echo "$val" | grep -qE '^1 << [0-9]+$'; then
      sh=${val##* }; if [ $delta = plus ]; then new="1 << $((sh+1))"; else new="1 << $((sh-1))"; fi
    else
      continue
    fi
    git -C /repo checkout -- . 
    sed -i "${ln}s/= .*;/= ${new};/" /repo/src/constants.rs
    if ! (cd /repo && cargo build --offline -q 2>/dev/null); then echo "| $name | $val -> $new | does not compile | - | |" >> $OUT; continue; fi
    t=$(cd /repo && cargo test --workspace --no-fail-fast --offline 2>&1 | grep -E "^test result" | awk '{p+=$4; f+=$6} END {print p" passed "f" failed"}')
    if ! echo "$t" | grep -q " 0 failed"; then echo "| $name | $val -> $new | $t | (killed by the repository's tests) | |" >> $OUT; continue; fi
    found="SURVIVED"; sig=""
    for id in $CHECKS; do
      res=$(timeout 600 ./check $id quick 2>&1); code=$?
      if [ $code -eq 1 ]; then found=$id; sig=$(echo "$res" | grep -oE "(^| )signature=[^ ]+" | tr -d " " | sort -u | head -2 | tr '\n' ' '); break; fi
      if [ $code -ge 2 ]; then found="$id (exit $code)"; sig=$(echo "$res" | grep -E "MACHINERY|error" | head -1 | cut -c1-120); break; fi
    done
    echo "| $name | $val -> $new | $t | $found | $sig |" >> $OUT
    echo "$name $val -> $new : $t : $found $sig"
  done
done
git -C /repo checkout -- .
