#!/bin/bash
# tools/run_seed.sh <patch.diff> <ID> [<ID>...]   — applies a seeded change to /repo's working tree, runs the
# repository's own tests and the given checks (quick tier), and always reverts the change afterwards.
set -u
PATCH="$(readlink -f "$1")"; shift
cd /repo || exit 2
if [ -n "$(git status --porcelain --untracked-files=no)" ]; then echo "/repo working tree not clean" >&2; exit 2; fi
# evidence files written while the change is applied describe the changed tree: put the committed ones back
trap 'git -C /repo checkout -- . ; git -C /verif checkout -- evidence 2>/dev/null; find /verif/replays -name "*.json" -newer "$PATCH.stamp" -delete 2>/dev/null; rm -f "$PATCH.stamp"' EXIT
touch "$PATCH.stamp"
git apply "$PATCH" || { echo "PATCH DOES NOT APPLY"; exit 2; }
echo "== repository tests with the change"
cargo test --workspace --no-fail-fast --offline 2>&1 | grep -E "^test result|FAILED|failed" | sort | uniq -c
for id in "$@"; do
  echo "== check $id quick"
  ( cd /verif && timeout 600 ./check "$id" quick 2>&1 | grep -E "^VIOLATION|signature=|^$id|MACHINERY|BUILD" | cut -c1-260 | sort | uniq -c | sort -rn | head -8 ; echo "exit=${PIPESTATUS[0]}" )
done
