#!/bin/bash
# To be run INSIDE a `vp run --with-repo` snapshot: binds the snapshot's harness to the private copy of the
# repository ($VP_RUN_REPO) and runs the thorough tier of the checks named on the command line, one after
# the other, printing each check's summary line, wall time and peak memory.
#   vp run --with-repo --timeout 6h -- bash tools/thorough_snapshot.sh C17 C09 C07
# The evidence written by these runs stays in the snapshot; registered evidence comes from /verif itself.
set -u
sed -i "s#\"/repo\"#\"$VP_RUN_REPO\"#; s#/repo/src#$VP_RUN_REPO/src#" mc/props/Cargo.toml mc/props/build.rs
./check setup
for id in "$@"; do
  echo "=== $id"
  /usr/bin/time -f "%es %MKB" ./check $id thorough 2>&1 | grep -E "^$id |VIOLATION|KNOWN-FINDING|MACHINERY|KB$" | cut -c1-400
  echo "exit=${PIPESTATUS[0]}"
done
