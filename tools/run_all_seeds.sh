#!/bin/bash
# tools/run_all_seeds.sh [pattern] — applies every seeded change under /verif/seeded (matching the optional
# pattern) to /repo in turn, runs the checks listed in its meta.json ("reported_by", quick tier) and writes
# /verif/seeded/LAST_RUN.md : one line per (seed, check) with exit code and the signatures reported.
# /repo is always reverted. Takes ~1 min per seed.
set -u
cd /verif
# a run over a subset (pattern given) goes to its own file: the full table is assembled by hand from complete runs
if [ -n "${1:-}" ]; then OUT=/tmp/LAST_RUN.partial.md; else OUT=seeded/LAST_RUN.md; fi
echo "# Last run of all seeded changes ($(date -u +%Y-%m-%dT%H:%MZ), /repo $(git -C /repo rev-parse --short HEAD), /verif $(git rev-parse --short HEAD))" > $OUT
echo >> $OUT
echo "| seed | check | exit | signatures |" >> $OUT
echo "|---|---|---|---|" >> $OUT
for d in seeded/${1:-C}*/; do
  n=$(basename $d)
  [ -f $d/meta.json ] || continue
  ids=$(python3 -c "import json;print(' '.join(json.load(open('$d/meta.json'))['reported_by']))")
  if [ -n "$(git -C /repo status --porcelain --untracked-files=no)" ]; then echo "/repo not clean" >&2; exit 2; fi
  git -C /repo apply $PWD/$d/patch.diff || { echo "| $n | - | patch does not apply | |" >> $OUT; continue; }
  for id in $ids; do
    res=$(timeout 900 ./check $id quick 2>&1); code=$?
    sigs=$(echo "$res" | grep -oE "(^| )signature=[^ ]+" | tr -d " " | sort -u | head -4 | tr '\n' ' ')
    echo "| $n | $id | $code | $sigs |" >> $OUT
    echo "$n $id exit=$code $sigs"
  done
  git -C /repo checkout -- .
  git checkout -- evidence 2>/dev/null   # evidence written with a change applied describes the changed tree
  find replays -name '*.json' -delete
done
echo >> $OUT
echo "exit 1 = reported as a violation; exit 0 = missed; exit 2 = machinery failure" >> $OUT
